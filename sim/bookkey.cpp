// Independent computation of the Polyglot book key from the reference model's board.
// The *logic* (which randoms are XOR-ed, the en-passant rule) is written here from the format description; the 781
// constants themselves are the engine's own tables (trusted data: no other copy exists offline, see DESIGN.md 7/C18).
// They have internal linkage in engine/polyglot.cpp, so that file is compiled into this TU a second time with the
// class renamed (no duplicate symbols), which makes the arrays visible here.
#define PolyglotBook VerifPolyglotBookShadow
#include "polyglot.cpp"
#undef PolyglotBook

#include "refmodel.h"

namespace sim
{
uint64_t spec_polyglot_key(const ref::Board& b)
{
    using namespace engine;
    uint64_t key = 0;
    for (int s = 0; s < 64; ++s)
        if (b.sq[s]) key ^= POLYGLOT_PIECE[b.sq[s]][s];  // ref piece codes 1..12 == engine Piece numbering W_PAWN..B_KING
    if (b.castling & 1) key ^= POLYGLOT_CASTLING_WHITE_SHORT;
    if (b.castling & 2) key ^= POLYGLOT_CASTLING_WHITE_LONG;
    if (b.castling & 4) key ^= POLYGLOT_CASTLING_BLACK_SHORT;
    if (b.castling & 8) key ^= POLYGLOT_CASTLING_BLACK_LONG;
    if (b.ep >= 0)
    {
        // only when a pawn of the side to move stands next to the pawn that has just advanced two squares
        int f = ref::file_of(b.ep);
        int r = b.side == 0 ? 4 : 3;  // rank (0-based) of the advanced pawn: white to move -> black pawn on rank 5
        int8_t mine = ref::mk(b.side, ref::KIND_P);
        bool next_to = (f > 0 && b.sq[ref::sq_of(f - 1, r)] == mine) || (f < 7 && b.sq[ref::sq_of(f + 1, r)] == mine);
        if (next_to) key ^= POLYGLOT_ENPASSANT[f];
    }
    if (b.side == 0) key ^= POLYGLOT_TURN;
    return key;
}
}  // namespace sim
