// Deterministic simulator core: baton scheduler over real engine threads,
// simulated clock, simulated stdin/stdout, GUI script interpreter, monitors
// and transcript oracles.  This TU is compiled WITHOUT thread-sanitizer
// instrumentation in the tsan variant (see DESIGN.md 3.7).
#include "sim.h"

#include <linux/futex.h>
#include <pthread.h>
#include <sys/syscall.h>
#include <time.h>
#include <unistd.h>

#include <algorithm>
#include <cerrno>
#include <chrono>
#include <cstdio>
#include <cstring>
#include <iostream>
#include <memory>
#include <set>
#include <sstream>
#include <unordered_map>

#include "endgame.h"
#include "logger.h"
#include "movegen.h"
#include "polyglot.h"
#include "position.h"
#include "score.h"
#include "search.h"
#include "transposition_table.h"
#include "uci.h"
#include "verif_hooks.h"
#include "zobrist_hash.h"

#include "simint.h"

namespace engine
{
extern uint64_t PIECE_HASH[PIECE_NUM][SQUARE_NUM];
extern uint64_t CASTLING_HASH[1 << 4];
extern uint64_t SIDE_HASH;
extern uint64_t ENPASSANT_HASH[FILE_NUM];
}  // namespace engine

static_assert(int(sim::PT_ITER_DONE) == int(VERIF_PT_ITER_DONE) && int(sim::PT_NODE) == int(VERIF_PT_NODE) &&
                  int(sim::PT_IO_LOCK_RELEASED) == int(VERIF_PT_IO_LOCK_RELEASED) && int(sim::PT_STOP_EXIT) == int(VERIF_PT_STOP_EXIT),
              "point ids out of sync with engine/verif_hooks.h");

// ------------------------------------------------------------------ tsan --
#if defined(VERIF_TSAN)
extern "C"
{
    void __tsan_acquire(void* addr);
    void __tsan_release(void* addr);
    void AnnotateIgnoreReadsBegin(const char* f, int l);
    void AnnotateIgnoreReadsEnd(const char* f, int l);
    void AnnotateIgnoreWritesBegin(const char* f, int l);
    void AnnotateIgnoreWritesEnd(const char* f, int l);
}
#define TSAN_ACQUIRE(p) __tsan_acquire(p)
#define TSAN_RELEASE(p) __tsan_release(p)
struct TsanIgnoreScope
{
    TsanIgnoreScope()
    {
        AnnotateIgnoreReadsBegin(__FILE__, __LINE__);
        AnnotateIgnoreWritesBegin(__FILE__, __LINE__);
    }
    ~TsanIgnoreScope()
    {
        AnnotateIgnoreWritesEnd(__FILE__, __LINE__);
        AnnotateIgnoreReadsEnd(__FILE__, __LINE__);
    }
};
#define TSAN_IGNORE_SCOPE() TsanIgnoreScope tsan_ignore_scope_
#else
#define TSAN_ACQUIRE(p) ((void)0)
#define TSAN_RELEASE(p) ((void)0)
#define TSAN_IGNORE_SCOPE() ((void)0)
#endif

#if defined(VERIF_TSAN)
#include <dlfcn.h>
extern "C"
{
    int __tsan_get_report_data(void* report, const char** description, int* count, int* stack_count, int* mop_count, int* loc_count, int* mutex_count, int* thread_count,
                               int* unique_tid_count, void** sleep_trace, unsigned long trace_size);
    int __tsan_get_report_mop(void* report, unsigned long idx, int* tid, void** addr, int* size, int* write, int* atomic, void** trace, unsigned long trace_size);
    __attribute__((used)) const char* __tsan_default_options() { return "history_size=7:halt_on_error=0:report_signal_unsafe=0:exitcode=0:report_thread_leaks=0"; }
}
namespace sim
{
struct TsanReportRec
{
    bool stop_path;
    bool reader_side;   // one of the stacks is the UCI reader loop
    char text[400];
};
static TsanReportRec g_tsan_reports[32];
static volatile int g_tsan_report_count = 0;
void* g_tsan_stop_flag_addr[4] = {nullptr, nullptr, nullptr, nullptr};
}
// called by the TSan runtime for every report it is about to print
extern "C" void __tsan_on_report(void* report)
{
    using namespace sim;
    const char* desc = nullptr;
    int count = 0, stack_count = 0, mop_count = 0, loc_count = 0, mutex_count = 0, thread_count = 0, utid = 0;
    void* sleep_trace[8];
    __tsan_get_report_data(report, &desc, &count, &stack_count, &mop_count, &loc_count, &mutex_count, &thread_count, &utid, sleep_trace, 8);
    int idx = g_tsan_report_count;
    if (idx >= 32) return;
    TsanReportRec& r = g_tsan_reports[idx];
    r.stop_path = false;
    r.reader_side = false;
    size_t pos = 0;
    auto app = [&](const char* s) {
        while (*s && pos + 1 < sizeof r.text) r.text[pos++] = *s++;
        r.text[pos] = 0;
    };
    app(desc ? desc : "?");
    for (int m = 0; m < mop_count && m < 4; ++m)
    {
        int tid = 0, size = 0, write = 0, atomic = 0;
        void* addr = nullptr;
        void* trace[16] = {nullptr};
        __tsan_get_report_mop(report, (unsigned long)m, &tid, &addr, &size, &write, &atomic, trace, 16);
        app(write ? " | write:" : " | read:");
        for (auto f : g_tsan_stop_flag_addr)
            if (f && addr == f) { r.stop_path = true; app(" [stop flag]"); }
        for (int k = 0; k < 16 && trace[k]; ++k)
        {
            Dl_info di;
            if (dladdr(trace[k], &di) && di.dli_sname)
            {
                if (k < 4) { app(" "); app(di.dli_sname); }
                if (strstr(di.dli_sname, "6Search4stop") || strstr(di.dli_sname, "12stop_command") || strstr(di.dli_sname, "12quit_command")) r.stop_path = true;
                if (strstr(di.dli_sname, "3Uci4loop")) r.reader_side = true;
            }
        }
    }
    g_tsan_report_count = idx + 1;
}
#endif

namespace sim
{
#if defined(VERIF_TSAN)
static void collect_tsan_reports()
{
    static int seen = 0;
    while (seen < g_tsan_report_count)
    {
        TsanReportRec& r = g_tsan_reports[seen++];
        if (!W) continue;
        // the command handlers are usually inlined into Uci::loop: a race with the reader thread while it handles a
        // stop / quit line is a race of the stop signalling as well
        bool reader_handles_stop = r.reader_side && (W->last_consumed == "stop" || W->last_consumed == "quit");
        if (r.stop_path || reader_handles_stop) W->violation("C06", "data-race-on-stop-path", std::string("ThreadSanitizer: ") + r.text);
        else
        {
            W->counters["tsan_other_races"]++;
            if (W->result.transcript_tail.size() < 3) W->result.transcript_tail.push_back(std::string("[tsan other race] ") + r.text);
        }
    }
}
#else
static void collect_tsan_reports() {}
#endif
// ----------------------------------------------------------------- futex --
static long raw_futex(volatile int* uaddr, int op, int val, const struct timespec* timeout)
{
    long ret;
    register long r10 __asm__("r10") = (long)timeout;
    register long r8 __asm__("r8") = 0;
    register long r9 __asm__("r9") = 0;
    __asm__ volatile("syscall"
                     : "=a"(ret)
                     : "a"((long)SYS_futex), "D"(uaddr), "S"((long)op), "d"((long)val), "r"(r10), "r"(r8), "r"(r9)
                     : "rcx", "r11", "memory");
    return ret;
}
static inline int ld(volatile int* p) { return __atomic_load_n(p, __ATOMIC_ACQUIRE); }
static inline void st(volatile int* p, int v) { __atomic_store_n(p, v, __ATOMIC_RELEASE); }
static void fwake(volatile int* p) { raw_futex(p, FUTEX_WAKE_PRIVATE, 1, nullptr); }

World* W = nullptr;
static __thread Task* tl_task = nullptr;

static int g_sim_seconds_hang = 30;
static long g_debug = getenv("VSIM_DEBUG") ? atol(getenv("VSIM_DEBUG")) : 0;

// --------------------------------------------------------------- baton ----
static void hand_to_driver()
{
    // after the store the driver may run on (and even tear the world down): do not touch W again
    volatile int* dg = &W->driver_go;
    st(dg, 1);
    fwake(dg);
}

static void task_wait_go(Task* t)
{
    while (ld(&t->go) == 0) raw_futex(&t->go, FUTEX_WAIT_PRIVATE, 0, nullptr);
}

static void trace_event(uint64_t a, uint64_t b, uint64_t c)
{
    uint64_t h = W->trace_hash;
    h = fnv1a_u64(h, a);
    h = fnv1a_u64(h, b);
    h = fnv1a_u64(h, c);
    W->trace_hash = h;
}

// called by a task that holds the baton
static void task_yield(Task* t, int state, int point)
{
    t->state = state;
    t->last_point = point;
    t->yields++;
    trace_event(uint64_t(t->id) << 8 | uint64_t(point), uint64_t(t->nodes), uint64_t(state));
    st(&t->go, 0);
    hand_to_driver();
    task_wait_go(t);
    t->state = ST_RUNNING;
}

// returns false on hang
static bool drive(Task* t, int64_t quantum)
{
    t->quantum = quantum;
    st(&W->driver_go, 0);
    st(&t->go, 1);
    fwake(&t->go);
    struct timespec ts;
    ts.tv_sec = 1;
    ts.tv_nsec = 0;
    int waited = 0;
    while (ld(&W->driver_go) == 0)
    {
        long r = raw_futex(&W->driver_go, FUTEX_WAIT_PRIVATE, 0, &ts);
        if (r == -ETIMEDOUT)
        {
            if (++waited >= g_sim_seconds_hang) return false;
        }
    }
    return true;
}

// ------------------------------------------------------------ yieldpoint --
static inline void yieldpoint(Task* t, int point)
{
    t->point_count[point & 31]++;
    bool fire = false;
    if (t->watch_armed && t->watch_point == point && t->point_count[point & 31] >= t->watch_k)
    {
        t->watch_armed = false;
        t->trigger_fired = true;
        fire = true;
    }
    if (fire || --t->quantum <= 0) task_yield(t, ST_READY, point);
}

// -------------------------------------------------------------- streams --
struct SimInBuf : std::streambuf
{
    std::string cur;
    int_type underflow() override
    {
        Task* t = tl_task;
        if (!t || !W) return traits_type::eof();
        TSAN_IGNORE_SCOPE();
        W->on_stop_exit(t);  // the reader is back for the next line: whatever it did with a consumed `stop` is done
        bool yielded_ready = false;
        for (;;)
        {
            t->point_count[PT_IN_WAIT]++;
            bool empty = W->inq.empty();
            if (empty && W->in_eof) return traits_type::eof();
            if (empty)
            {
                W->on_reader_idle();
                task_yield(t, ST_WAIT_INPUT, PT_IN_WAIT);
                continue;
            }
            // taking a line out of the pipe is a preemption point (once)
            if (!yielded_ready && --t->quantum <= 0)
            {
                yielded_ready = true;
                task_yield(t, ST_READY, PT_IN_WAIT);
                continue;
            }
            break;
        }
        cur = W->inq.front();
        W->inq.pop_front();
        W->on_line_consumed(t, cur);
        cur += '\n';
        setg(&cur[0], &cur[0], &cur[0] + cur.size());
        return traits_type::to_int_type(cur[0]);
    }
};

struct SimOutBuf : std::streambuf
{
    void put(char c)
    {
        Task* t = tl_task;
        if (!W) return;
        if (!t)
        {
            // engine code run directly by the driver (harness-side checks): captured separately
            if (c == '\n') { W->driver_out.push_back(W->driver_line); W->driver_line.clear(); }
            else W->driver_line += c;
            return;
        }
        if (c == '\n')
        {
            std::string line;
            line.swap(W->out_line);
            W->on_line_emitted(t, line);
            if (W->gui_wake)
            {
                // a line the GUI is waiting for: it may react before this thread runs on
                W->gui_wake = false;
                t->point_count[PT_OUT_LINE & 31]++;
                task_yield(t, ST_READY, PT_OUT_LINE);
            }
            else
                yieldpoint(t, PT_OUT_LINE);
        }
        else
        {
            if (W->out_line.empty()) W->out_line_first_writer = t->id;
            else if (W->out_line_first_writer != t->id) W->out_line_mixed = true;
            W->out_line += c;
        }
    }
    int_type overflow(int_type c) override
    {
        TSAN_IGNORE_SCOPE();
        if (c != traits_type::eof()) put(char(c));
        return c;
    }
    std::streamsize xsputn(const char* s, std::streamsize n) override
    {
        TSAN_IGNORE_SCOPE();
        Task* t = tl_task;
        if (t && W && W->cfg.xsputn_preempt) yieldpoint(t, PT_OUT_PART);
        for (std::streamsize i = 0; i < n; ++i) put(s[i]);
        return n;
    }
    int sync() override { return 0; }
};

static SimInBuf g_inbuf;
static SimOutBuf g_outbuf;

// ---------------------------------------------------------------- clock ---
int64_t W_clock_reads = 0;
void clock_read_point()
{
    Task* t = tl_task;
    if (!t || !W || t->kind != TK_SEARCH) return;
    TSAN_IGNORE_SCOPE();
    yieldpoint(t, PT_CLOCK);
}
int64_t sim_now_ns() { return W ? W->clock_ns : 0; }

}  // namespace sim

extern "C"
{
    // std::chrono::steady_clock::now() / system_clock::now() replaced at link time (-Wl,--wrap)
    int64_t __wrap__ZNSt6chrono3_V212steady_clock3nowEv()
    {
        sim::W_clock_reads++;
        // reading the clock is a system-call boundary: a preemption point for search threads
        sim::clock_read_point();
        return 1'000'000'000LL + sim::sim_now_ns();
    }
    // std::random_device (seed of zobrist::init) replaced at link time: a fixed seed, so that the engine's own
    // table initialisation is a deterministic, real component of the simulation (zobrist mode 4)
    unsigned int __wrap__ZNSt13random_device9_M_getvalEv(void*) { return 0x5EED1234u; }
    int64_t __wrap__ZNSt6chrono3_V212system_clock3nowEv()
    {
        sim::W_clock_reads++;
        int64_t off = sim::W ? sim::W->cfg.epoch_offset_us * 1000 + sim::W->wall_jump_ns : 0;
        return 1'600'000'000'000'000'000LL + off + sim::sim_now_ns();
    }
}

namespace sim
{
// ----------------------------------------------------------------- hooks --
static void apply_node_faults(Task* t, const engine::Position* pos);
}

#if !defined(VERIF_TSAN)
// With pthread_create intercepted (below) every thread an engine task creates becomes a simulated task, hooked or not.
// The hooks only tell which creation is "the search thread of the go being handled".
extern "C" void verif_spawn(void)
{
    using namespace sim;
    if (!W || !tl_task) return;
    W->spawn_hint = true;
}
extern "C" void verif_thread_begin(void) {}
extern "C" void verif_thread_end(void) {}
#else
extern "C" void verif_spawn(void)
{
    using namespace sim;
    if (!W || !tl_task) return;
    TSAN_IGNORE_SCOPE();
    int idx = W->spawned;
    if (idx >= MAX_TASKS - 1)
    {
        W->infra("too many tasks");
        return;
    }
    Task* t = &W->tasks[idx];
    *t = Task();
    t->id = idx;
    t->kind = TK_SEARCH;
    t->state = ST_READY;
    t->go = 0;
    W->on_spawn(t);
    __atomic_store_n(&W->spawned, idx + 1, __ATOMIC_RELEASE);
    // not a preemption point: the physical thread does not exist before the spawner has run on
    tl_task->point_count[PT_SPAWN & 31]++;
}

extern "C" void verif_thread_begin(void)
{
    using namespace sim;
    if (!W) return;
    int idx = __atomic_fetch_add(&W->claimed, 1, __ATOMIC_ACQ_REL);
    Task* t = &W->tasks[idx];
    tl_task = t;
    task_wait_go(t);
    t->arrived = true;
    t->state = ST_RUNNING;
    t->pthread_id = (unsigned long)pthread_self();
    t->point_count[PT_THREAD_BEGIN & 31]++;
}

extern "C" void verif_thread_end(void)
{
    using namespace sim;
    Task* t = tl_task;
    if (!W || !t) return;
    tl_task = nullptr;
    t->state = ST_DONE;
    t->last_point = PT_THREAD_END;
    trace_event(uint64_t(t->id) << 8 | PT_THREAD_END, uint64_t(t->nodes), ST_DONE);
    W->on_task_done(t);
    hand_to_driver();
}
#endif

extern "C" void verif_point(int id, const void* a, const void* b)
{
    using namespace sim;
    Task* t = tl_task;
    if (!t || !W) return;
    TSAN_IGNORE_SCOPE();
    switch (id)
    {
    case VERIF_PT_NODE:
    case VERIF_PT_QNODE:
    {
        t->nodes++;
        W->nodes_total++;
        W->clock_ns += W->cfg.node_cost_ns;
        const engine::Position* pos = static_cast<const engine::Position*>(a);
        if (!W->uci_destroyed)  // after main() destroyed the engine object the harness keeps its hands off engine memory
        {
            if (t->force_stop && t->search_obj) static_cast<engine::Search*>(t->search_obj)->stop_search = true;
            // C09, "terminates on its own" seen from the inside: the root (ply 0) is entered once per aspiration attempt.
            // The engine widens its window geometrically, a few dozen attempts at most; a thousand entries of the root
            // inside one iteration is a re-search loop that no longer makes progress (a GUI's stop would hide it).
            if (id == VERIF_PT_NODE && b && static_cast<const engine::Info*>(b)->_ply == 0 && t->go_index >= 0)
            {
                ++t->root_visits_iter;
                if (t->root_visits_iter == 100) W->counters["root_entered_100_times_in_one_iteration"]++;
                if (t->root_visits_iter == 1000 && !t->force_stop)
                {
                    GoRec& g = W->gos[t->go_index];
                    W->violation("C09", "iteration-never-completes", "'" + g.line + "' in " + g.root.fen() + ": the root was searched 1000 times inside iteration " + std::to_string(g.iterations_done + 1) +
                                                                          " (" + std::to_string(t->nodes) + " node visits), the re-search loop makes no progress");
                    t->force_stop = true;
                }
            }
            if (W->monitors_on) W->monitor_node(t, id, pos, static_cast<const engine::Info*>(b));
            if (t->nf_next < t->node_faults.size() && t->node_faults[t->nf_next].k <= t->nodes) apply_node_faults(t, pos);
        }
        // W4(k): the watch for PT_NODE counts NODE and QNODE visits alike
        if (t->watch_armed && t->watch_point == PT_NODE && t->nodes >= t->watch_k)
        {
            t->watch_armed = false;
            t->trigger_fired = true;
            task_yield(t, ST_READY, PT_NODE);
        }
        else if (--t->quantum <= 0)
            task_yield(t, ST_READY, PT_NODE);
        break;
    }
    case VERIF_PT_AFTER_UNDO:
        if (W->monitors_on && !W->uci_destroyed)
            W->monitor_after_undo(t, static_cast<const engine::Position*>(a), static_cast<const engine::Info*>(b));
        break;
    case VERIF_PT_GO_ENTRY:
        t->search_obj = const_cast<void*>(a);
        if (!W->uci_destroyed) W->on_go_entry(t);
        yieldpoint(t, id);
        break;
    case VERIF_PT_GO_AFTER_INIT:
    case VERIF_PT_GO_AFTER_RESET:
    case VERIF_PT_ITER_DONE:
        if (g_debug) fprintf(stderr, "[go phase %d task %d] Search %p flag=%d\n", id, t->id, a, int(static_cast<const engine::Search*>(a)->stop_search));
        if (id == VERIF_PT_ITER_DONE || id == VERIF_PT_GO_AFTER_RESET) t->root_visits_iter = 0;
        W->on_go_phase(t, id);
        yieldpoint(t, id);
        break;
    case VERIF_PT_GO_BEFORE_BESTMOVE:
        W->on_before_bestmove(t);
        yieldpoint(t, id);
        break;
    case VERIF_PT_STOP_ENTRY:
        yieldpoint(t, id);
        break;
    case VERIF_PT_STOP_EXIT:
        if (g_debug) fprintf(stderr, "[stop exit] Search %p flag=%d\n", a, int(static_cast<const engine::Search*>(a)->stop_search));
        W->on_stop_exit(t);
        yieldpoint(t, id);
        break;
    case VERIF_PT_IO_LOCK_BLOCKED:
        W->counters["io_lock_blocked"]++;
        task_yield(t, ST_WAIT_LOCK, id);
        break;
    case VERIF_PT_IO_LOCK_ACQUIRED:
        W->io_owner = t->id;
        break;
    case VERIF_PT_IO_LOCK_RELEASED:
        W->io_owner = -1;
        yieldpoint(t, id);  // a mutex hand-over is a scheduling point: whoever waits for the lock may run now
        break;
    default:
        break;
    }
}

// ------------------------------------------------ blocking primitives -----
// pthread mutexes, condition variables, sleeps and joins used by simulated tasks are intercepted at link level (the
// executable's definitions win over libc's): a task never blocks in the kernel while it holds the baton; it parks in
// the scheduler instead, so lost wake-ups and lock cycles become explorable, reproducible schedules.  Not in the tsan
// variant (ThreadSanitizer needs its own interceptors to see the engine's synchronisation).
#if !defined(VERIF_TSAN)
#include <dlfcn.h>
#include <sched.h>
extern "C"
{
    int __interceptor_pthread_join(pthread_t, void**) __attribute__((weak));
    int __interceptor_pthread_create(pthread_t*, const pthread_attr_t*, void* (*)(void*), void*) __attribute__((weak));
}
namespace sim
{
// libc's own mutex functions, resolved lazily (they are needed before main: static initialisers lock mutexes)
static int (*real_mutex_lock)(pthread_mutex_t*) = nullptr;
static int (*real_mutex_trylock)(pthread_mutex_t*) = nullptr;
static int (*real_mutex_unlock)(pthread_mutex_t*) = nullptr;
static bool g_resolving_mutex = false;
static bool resolve_mutex_fns()
{
    if (real_mutex_lock) return true;
    if (g_resolving_mutex) return false;  // dlsym itself took a lock: single-threaded start-up, nothing to protect
    g_resolving_mutex = true;
    auto l = (int (*)(pthread_mutex_t*))dlsym(RTLD_NEXT, "pthread_mutex_lock");
    auto tl = (int (*)(pthread_mutex_t*))dlsym(RTLD_NEXT, "pthread_mutex_trylock");
    auto u = (int (*)(pthread_mutex_t*))dlsym(RTLD_NEXT, "pthread_mutex_unlock");
    real_mutex_trylock = tl;
    real_mutex_unlock = u;
    real_mutex_lock = l;
    g_resolving_mutex = false;
    return true;
}
static inline int __pthread_mutex_lock(pthread_mutex_t* m) { return resolve_mutex_fns() ? real_mutex_lock(m) : 0; }
static inline int __pthread_mutex_trylock(pthread_mutex_t* m) { return resolve_mutex_fns() ? real_mutex_trylock(m) : 0; }
static inline int __pthread_mutex_unlock(pthread_mutex_t* m) { return resolve_mutex_fns() ? real_mutex_unlock(m) : 0; }
static int (*real_cond_signal)(pthread_cond_t*) = nullptr;
static int (*real_cond_broadcast)(pthread_cond_t*) = nullptr;
static int (*real_cond_wait)(pthread_cond_t*, pthread_mutex_t*) = nullptr;
static int (*real_cond_timedwait)(pthread_cond_t*, pthread_mutex_t*, const struct timespec*) = nullptr;
static int (*real_cond_clockwait)(pthread_cond_t*, pthread_mutex_t*, clockid_t, const struct timespec*) = nullptr;
static int (*real_join)(pthread_t, void**) = nullptr;
static int (*real_create)(pthread_t*, const pthread_attr_t*, void* (*)(void*), void*) = nullptr;
static int (*real_nanosleep)(const struct timespec*, struct timespec*) = nullptr;
static int (*real_clock_nanosleep)(clockid_t, int, const struct timespec*, struct timespec*) = nullptr;
void resolve_real_sync()
{
    real_cond_signal = (int (*)(pthread_cond_t*))dlsym(RTLD_NEXT, "pthread_cond_signal");
    real_cond_broadcast = (int (*)(pthread_cond_t*))dlsym(RTLD_NEXT, "pthread_cond_broadcast");
    real_cond_wait = (int (*)(pthread_cond_t*, pthread_mutex_t*))dlsym(RTLD_NEXT, "pthread_cond_wait");
    real_cond_timedwait = (int (*)(pthread_cond_t*, pthread_mutex_t*, const struct timespec*))dlsym(RTLD_NEXT, "pthread_cond_timedwait");
    real_cond_clockwait = (int (*)(pthread_cond_t*, pthread_mutex_t*, clockid_t, const struct timespec*))dlsym(RTLD_NEXT, "pthread_cond_clockwait");
    real_join = __interceptor_pthread_join ? __interceptor_pthread_join : (int (*)(pthread_t, void**))dlsym(RTLD_NEXT, "pthread_join");
    real_create = __interceptor_pthread_create ? __interceptor_pthread_create
                                               : (int (*)(pthread_t*, const pthread_attr_t*, void* (*)(void*), void*))dlsym(RTLD_NEXT, "pthread_create");
    real_nanosleep = (int (*)(const struct timespec*, struct timespec*))dlsym(RTLD_NEXT, "nanosleep");
    real_clock_nanosleep = (int (*)(clockid_t, int, const struct timespec*, struct timespec*))dlsym(RTLD_NEXT, "clock_nanosleep");
}
static Task* sim_task() { return W ? tl_task : nullptr; }
static int sim_mutex_lock(Task* t, pthread_mutex_t* m)
{
    for (;;)
    {
        int r = __pthread_mutex_trylock(m);
        if (r != EBUSY) return r;
        t->wait_obj = m;
        t->mutex_epoch_seen = W->mutex_epoch;
        W->counters["sync_mutex_blocked"]++;
        task_yield(t, ST_WAIT_MUTEX, PT_MUTEX_BLOCKED);
    }
}
static int64_t abstime_to_sim_ns(clockid_t clk, const struct timespec* ts)
{
    int64_t abs = int64_t(ts->tv_sec) * 1000000000LL + ts->tv_nsec;
    if (clk == CLOCK_REALTIME) return abs - 1600000000000000000LL - (W ? W->cfg.epoch_offset_us * 1000 : 0);
    return abs - 1000000000LL;
}
static int sim_cond_wait(Task* t, pthread_cond_t* c, pthread_mutex_t* m, int64_t deadline_ns)
{
    t->wait_obj = c;
    t->cond_signalled = false;
    t->wake_ns = deadline_ns;
    __pthread_mutex_unlock(m);
    W->mutex_epoch++;
    W->counters["sync_cond_waits"]++;
    do task_yield(t, ST_WAIT_COND, PT_COND_WAIT);
    while (!t->cond_signalled && !(t->wake_ns >= 0 && W->clock_ns >= t->wake_ns));
    bool timed_out = !t->cond_signalled;
    t->wait_obj = nullptr;
    t->wake_ns = -1;
    sim_mutex_lock(t, m);
    return timed_out ? ETIMEDOUT : 0;
}
static void sim_cond_wake(pthread_cond_t* c, bool all)
{
    for (int i = 0; i < W->spawned; ++i)
    {
        Task& tk = W->tasks[i];
        if (tk.state == ST_WAIT_COND && tk.wait_obj == c && !tk.cond_signalled)
        {
            tk.cond_signalled = true;
            if (!all) return;
        }
    }
}
static void sim_sleep(Task* t, int64_t ns)
{
    t->wake_ns = W->clock_ns + (ns > 0 ? ns : 0);
    W->counters["sync_sleeps"]++;
    do task_yield(t, ST_SLEEP, PT_SLEEP);
    while (W->clock_ns < t->wake_ns);
    t->wake_ns = -1;
}
}  // namespace sim

namespace sim
{
struct Trampoline
{
    void* (*fn)(void*);
    void* arg;
    Task* task;
    World* world;
};
static void* thread_trampoline(void* p)
{
    Trampoline tr = *static_cast<Trampoline*>(p);
    std::free(p);
    Task* t = tr.task;
    tl_task = t;
    task_wait_go(t);
    t->arrived = true;
    t->state = ST_RUNNING;
    t->pthread_id = (unsigned long)pthread_self();
    t->point_count[PT_THREAD_BEGIN & 31]++;
    void* ret = tr.fn(tr.arg);
    tl_task = nullptr;
    if (W == tr.world)
    {
        t->state = ST_DONE;
        t->last_point = PT_THREAD_END;
        trace_event(uint64_t(t->id) << 8 | PT_THREAD_END, uint64_t(t->nodes), ST_DONE);
        W->on_task_done(t);
        hand_to_driver();
    }
    return ret;
}
}  // namespace sim

extern "C"
{
    int pthread_create(pthread_t* th, const pthread_attr_t* attr, void* (*fn)(void*), void* arg)
    {
        using namespace sim;
        if (!real_create) resolve_real_sync();
        Task* caller = sim_task();
        if (!caller) return real_create(th, attr, fn, arg);
        int idx = W->spawned;
        if (idx >= MAX_TASKS - 1)
        {
            W->infra("too many tasks");
            return real_create(th, attr, fn, arg);
        }
        Task* t = &W->tasks[idx];
        *t = Task();
        t->id = idx;
        t->kind = W->spawn_hint ? TK_SEARCH : TK_HELPER;
        t->state = ST_READY;
        t->go = 0;
        if (W->spawn_hint) W->on_spawn(t);
        else W->counters["helper_threads"]++;
        W->spawn_hint = false;
        Trampoline* tr = static_cast<Trampoline*>(std::malloc(sizeof(Trampoline)));
        tr->fn = fn;
        tr->arg = arg;
        tr->task = t;
        tr->world = W;
        int rc = real_create(th, attr, thread_trampoline, tr);
        if (rc != 0)
        {
            std::free(tr);
            t->state = ST_DONE;
            return rc;
        }
        t->pthread_id = (unsigned long)*th;
        __atomic_store_n(&W->spawned, idx + 1, __ATOMIC_RELEASE);
        // the new thread may well run before its creator continues: always let the scheduler decide
        caller->point_count[PT_SPAWN & 31]++;
        task_yield(caller, ST_READY, PT_SPAWN);
        return 0;
    }
    int pthread_mutex_lock(pthread_mutex_t* m)
    {
        sim::Task* t = sim::sim_task();
        if (!t) return sim::__pthread_mutex_lock(m);
        return sim::sim_mutex_lock(t, m);
    }
    int pthread_mutex_unlock(pthread_mutex_t* m)
    {
        int r = sim::__pthread_mutex_unlock(m);
        if (sim::sim_task()) sim::W->mutex_epoch++;
        return r;
    }
    int pthread_cond_wait(pthread_cond_t* c, pthread_mutex_t* m)
    {
        sim::Task* t = sim::sim_task();
        if (!t) return sim::real_cond_wait(c, m);
        return sim::sim_cond_wait(t, c, m, -1);
    }
    int pthread_cond_timedwait(pthread_cond_t* c, pthread_mutex_t* m, const struct timespec* ts)
    {
        sim::Task* t = sim::sim_task();
        if (!t) return sim::real_cond_timedwait(c, m, ts);
        return sim::sim_cond_wait(t, c, m, sim::abstime_to_sim_ns(CLOCK_REALTIME, ts));
    }
    int pthread_cond_clockwait(pthread_cond_t* c, pthread_mutex_t* m, clockid_t clk, const struct timespec* ts)
    {
        sim::Task* t = sim::sim_task();
        if (!t) return sim::real_cond_clockwait(c, m, clk, ts);
        return sim::sim_cond_wait(t, c, m, sim::abstime_to_sim_ns(clk, ts));
    }
    int pthread_cond_signal(pthread_cond_t* c)
    {
        if (sim::sim_task()) sim::sim_cond_wake(c, false);
        return sim::real_cond_signal ? sim::real_cond_signal(c) : 0;
    }
    int pthread_cond_broadcast(pthread_cond_t* c)
    {
        if (sim::sim_task()) sim::sim_cond_wake(c, true);
        return sim::real_cond_broadcast ? sim::real_cond_broadcast(c) : 0;
    }
    int pthread_join(pthread_t th, void** ret)
    {
        sim::Task* t = sim::sim_task();
        if (t)
        {
            int target = -1;
            for (int i = 0; i < sim::W->spawned; ++i)
                if (sim::W->tasks[i].pthread_id == (unsigned long)th) target = i;
            if (target >= 0 && sim::W->tasks[target].state != sim::ST_DONE)
            {
                t->join_target = target;
                sim::W->counters["sync_joins"]++;
                do sim::task_yield(t, sim::ST_WAIT_JOIN, sim::PT_JOIN);
                while (sim::W->tasks[target].state != sim::ST_DONE);
                t->join_target = -1;
            }
        }
        return sim::real_join(th, ret);
    }
    int nanosleep(const struct timespec* req, struct timespec* rem)
    {
        sim::Task* t = sim::sim_task();
        if (!t) return sim::real_nanosleep(req, rem);
        sim::sim_sleep(t, int64_t(req->tv_sec) * 1000000000LL + req->tv_nsec);
        return 0;
    }
    int clock_nanosleep(clockid_t clk, int flags, const struct timespec* req, struct timespec* rem)
    {
        sim::Task* t = sim::sim_task();
        if (!t) return sim::real_clock_nanosleep(clk, flags, req, rem);
        int64_t ns = int64_t(req->tv_sec) * 1000000000LL + req->tv_nsec;
        if (flags & TIMER_ABSTIME) ns = sim::abstime_to_sim_ns(clk, req) - sim::W->clock_ns;
        sim::sim_sleep(t, ns);
        return 0;
    }
    int sched_yield(void)
    {
        sim::Task* t = sim::sim_task();
        if (t) { sim::W->counters["sync_yields"]++; sim::task_yield(t, sim::ST_READY, sim::PT_YIELD); }
        return 0;
    }
}
#else
namespace sim { void resolve_real_sync() {} }
// tsan variant: ThreadSanitizer's interceptors stay in charge of the engine's synchronisation, with one exception.  A
// task that joins another one would block in the kernel while it holds the baton; the sanitizer's `pthread_join` is a
// weak alias, so this definition wins, parks the joiner in the scheduler until every thread the engine started has
// ended, and then lets the sanitizer's interceptor do the real join (and record the happens-before edge).
extern "C" int __interceptor_pthread_join(pthread_t, void**);
extern "C" int pthread_join(pthread_t th, void** ret)
{
    sim::Task* t = sim::W ? sim::tl_task : nullptr;
    if (t && sim::W->live_search_tasks() > 0)
    {
        t->join_target = -2;
        sim::W->counters["sync_joins"]++;
        do sim::task_yield(t, sim::ST_WAIT_JOIN, sim::PT_JOIN);
        while (sim::W->live_search_tasks() > 0);
        t->join_target = -1;
    }
    return __interceptor_pthread_join(th, ret);
}
// The same holds for a sleep: with the simulated clock standing still a real sleep of a simulated task would hold the
// baton for its whole length (and the deadlines it is computed from are simulated ones).  The sanitizer's `nanosleep`
// is a weak alias as well; a sleeping task parks in the scheduler until the simulated clock reaches its wake-up time.
namespace sim
{
static void sim_sleep_tsan(Task* t, int64_t ns)
{
    t->wake_ns = W->clock_ns + (ns > 0 ? ns : 0);
    W->counters["sync_sleeps"]++;
    do task_yield(t, ST_SLEEP, PT_SLEEP);
    while (W->clock_ns < t->wake_ns);
    t->wake_ns = -1;
}
}  // namespace sim
extern "C" int __interceptor_nanosleep(const struct timespec*, struct timespec*) __attribute__((weak));
extern "C" int nanosleep(const struct timespec* req, struct timespec* rem)
{
    sim::Task* t = sim::W ? sim::tl_task : nullptr;
    if (!t)
    {
        if (__interceptor_nanosleep) return __interceptor_nanosleep(req, rem);
        return int(syscall(SYS_nanosleep, req, rem));
    }
    sim::sim_sleep_tsan(t, int64_t(req->tv_sec) * 1000000000LL + req->tv_nsec);
    return 0;
}
extern "C" int clock_nanosleep(clockid_t clk, int flags, const struct timespec* req, struct timespec* rem)
{
    sim::Task* t = sim::W ? sim::tl_task : nullptr;
    if (!t) return int(syscall(SYS_clock_nanosleep, clk, flags, req, rem)) == 0 ? 0 : errno;
    int64_t ns = int64_t(req->tv_sec) * 1000000000LL + req->tv_nsec;
    if (flags & TIMER_ABSTIME)
    {
        // deadlines are computed from the simulated clocks (steady: clock_ns; wall: the same plus the epoch offset)
        if (clk == CLOCK_REALTIME) ns -= 1600000000000000000LL + sim::W->cfg.epoch_offset_us * 1000;
        else ns -= 1000000000LL;
        ns -= sim::W->clock_ns;
    }
    sim::sim_sleep_tsan(t, ns);
    return 0;
}
#endif

namespace sim
{
// ------------------------------------------------------------ utilities ---
static std::vector<std::string> split_ws(const std::string& s)
{
    std::vector<std::string> out;
    std::istringstream is(s);
    std::string t;
    while (is >> t) out.push_back(t);
    return out;
}

static bool starts_with(const std::string& s, const char* p) { return s.rfind(p, 0) == 0; }

void World::violation(const std::string& prop, const std::string& cls, const std::string& detail)
{
    // one entry per (prop, class) and run is enough
    for (auto& v : result.violations)
        if (v.prop == prop && v.cls == cls) return;
    result.violations.push_back(Violation{prop, cls, detail});
}

void World::trace(uint64_t a, uint64_t b) { trace_event(a, b, 0); }

void World::infra(const std::string& what)
{
    if (!result.infra_error)
    {
        result.infra_error = true;
        result.infra_detail = what;
    }
}

// ---------------------------------------------------------- zobrist fill --
static uint64_t g_real_piece[engine::PIECE_NUM][engine::SQUARE_NUM];
static uint64_t g_real_castling[16], g_real_side, g_real_ep[8];

static void fill_zobrist(Rng& r, int mode)
{
    using namespace engine;
    if (mode == 4)
    {
        // the table produced by the engine's own zobrist::init() (captured once at process start)
        std::memcpy(PIECE_HASH, g_real_piece, sizeof g_real_piece);
        std::memcpy(CASTLING_HASH, g_real_castling, sizeof g_real_castling);
        SIDE_HASH = g_real_side;
        std::memcpy(ENPASSANT_HASH, g_real_ep, sizeof g_real_ep);
        return;
    }
    for (uint32_t p = 0; p < PIECE_NUM; ++p)
        for (uint32_t s = 0; s < SQUARE_NUM; ++s) PIECE_HASH[p][s] = r.next();
    for (int i = 0; i < 16; ++i) CASTLING_HASH[i] = r.next();
    SIDE_HASH = r.next();
    for (int f = 0; f < 8; ++f) ENPASSANT_HASH[f] = r.next();
    if (mode == 1)
    {
        // lowbits: every pawn structure key has its low 18 bits zero -> all fall into slot 0 of the pawn cache;
        // 64-bit keys stay distinct
        for (uint32_t s = 0; s < SQUARE_NUM; ++s)
        {
            PIECE_HASH[W_PAWN][s] &= ~0x3FFFFULL;
            PIECE_HASH[B_PAWN][s] &= ~0x3FFFFULL;
        }
    }
    else if (mode == 2)
    {
        // collide: distinct positions share 64-bit keys (side to move / castling rights / ep / knight-bishop identity)
        uint64_t sel = r.next();
        if (sel & 1) SIDE_HASH = 0;
        if (sel & 2)
            for (int i = 1; i < 16; ++i) CASTLING_HASH[i] = CASTLING_HASH[0];
        if (sel & 4)
            for (int f = 0; f < 8; ++f) ENPASSANT_HASH[f] = 0;
        if (sel & 8)
            for (uint32_t s = 0; s < SQUARE_NUM; ++s)
            {
                PIECE_HASH[W_BISHOP][s] = PIECE_HASH[W_KNIGHT][s];
                PIECE_HASH[B_BISHOP][s] = PIECE_HASH[B_KNIGHT][s];
            }
        if (!(sel & 15)) SIDE_HASH = 0;
    }
    else if (mode == 3)
    {
        // every piece word has its low 10 bits zero: all table slots collide, 64-bit keys distinct
        for (uint32_t p = 0; p < PIECE_NUM; ++p)
            for (uint32_t s = 0; s < SQUARE_NUM; ++s) PIECE_HASH[p][s] &= ~0x3FFULL;
    }
}

// ------------------------------------------------------------- GUI model --
void World::gui_note_sent(const std::string& line)
{
    auto tok = split_ws(line);
    if (tok.empty()) return;
    const std::string& c = tok[0];
    if (c == "position")
    {
        size_t i = 1;
        ref::Board b;
        if (i < tok.size() && tok[i] == "startpos") i++;
        else if (i < tok.size() && tok[i] == "fen")
        {
            std::string fen;
            i++;
            while (i < tok.size() && tok[i] != "moves") fen += tok[i++] + " ";
            b = ref::Board(fen);
        }
        game = ref::Game(b);
        if (i < tok.size() && tok[i] == "moves") i++;
        for (; i < tok.size(); ++i)
        {
            ref::RMove m;
            if (!game.cur.legal_uci(tok[i], m))
            {
                infra("script sends illegal move " + tok[i] + " in " + game.cur.fen());
                return;
            }
            game.push(m);
        }
        position_set = true;
    }
    else if (c == "moves")
    {
        for (size_t i = 1; i < tok.size(); ++i)
        {
            ref::RMove m;
            if (!game.cur.legal_uci(tok[i], m))
            {
                infra("script sends illegal move " + tok[i]);
                return;
            }
            game.push(m);
        }
    }
    else if (c == "ucinewgame")
    {
        game = ref::Game(ref::Board());
        counters["ucinewgame"]++;
    }
    else if (c == "go")
    {
        GoRec g;
        g.index = int(gos.size());
        g.line = line;
        g.root = game.cur;
        g.root_game_plies = int(game.moves.size());
        g.sent_seq = seq++;
        g.sent_clock = clock_ns;
        for (size_t i = 1; i < tok.size(); ++i)
        {
            auto num = [&](int64_t& v) { if (i + 1 < tok.size()) v = atoll(tok[++i].c_str()); };
            if (tok[i] == "depth") num(g.depth);
            else if (tok[i] == "nodes") num(g.nodes);
            else if (tok[i] == "movetime") { num(g.movetime); g.has_movetime = true; }
            else if (tok[i] == "wtime") num(g.wtime);
            else if (tok[i] == "btime") num(g.btime);
            else if (tok[i] == "winc") num(g.winc);
            else if (tok[i] == "binc") num(g.binc);
            else if (tok[i] == "movestogo") num(g.movestogo);
            else if (tok[i] == "infinite") g.infinite = true;
            else if (tok[i] == "searchmoves")
            {
                for (++i; i < tok.size(); ++i) g.searchmoves.push_back(tok[i]);
            }
        }
        g.root_has_moves = !g.root.legal().empty();
        for (auto& sm : g.searchmoves)
        {
            ref::RMove tmp;
            ref::Board rb = g.root;
            if (!rb.legal_uci(sm, tmp))
            {
                infra("script sends searchmoves " + sm + " which is not legal in " + g.root.fen());
                break;
            }
        }
        g.book_active = book_loaded_nonempty;
        gos.push_back(g);
        cur_go = g.index;
        counters["go_sent"]++;
    }
    else if (c == "quit")
    {
        exit_requested = true;
        if (cur_go >= 0 && gos[cur_go].bestmoves == 0)
        {
            gos[cur_go].exit_pending = true;
            counters["quit_during_search"]++;
        }
    }
    else if (c == "stop")
    {
        ++stop_lines_sent;
        if (cur_go >= 0 && !gos[cur_go].stop_sent)
        {
            gos[cur_go].stop_sent = true;
            gos[cur_go].stop_line_no = stop_lines_sent;
            counters["stop_sent"]++;
        }
    }
    else if (c == "isready")
    {
        ReadyRec r;
        r.sent_seq = seq++;
        readys.push_back(r);
    }
}

void World::send_line(const Op& op)
{
    if (op.line == "@close")
    {
        // the GUI closes its end of the pipe without `quit`: the reader sees EOF once it has drained what was sent
        in_eof = true;
        exit_requested = true;
        if (cur_go >= 0 && gos[cur_go].bestmoves == 0) gos[cur_go].exit_pending = true;
        counters["gui_closed_pipe"]++;
        if (live_search_tasks() > 0 || (cur_go >= 0 && !gos[cur_go].task_done)) counters["gui_closed_pipe_during_search"]++;
        trace_event(0x5E4D, 0xC105E, uint64_t(inq.size()));
        if (op.hold) hold_search = true;
        return;
    }
    if (op.line.find("@LOG@") != std::string::npos)
    {
        // per-process scratch log file, removed with the world
        std::string l = op.line;
        const char* d = getenv("VERIF_DIR");
        std::string dir = std::string(d ? d : "/verif") + "/build/run";
        // fault kind F_LOGFILE: one time in five the "disk" behind the log is full (every flush of the reader's copy
        // fails with ENOSPC), one time in five the file cannot be created at all; drawn from the run seed by a stream
        // nothing else uses, so that the schedules of all other choices are unchanged.
        uint64_t pick = aux_rng.below(5);
        std::string path;
        if (pick == 0) { path = "/dev/full"; counters["fault_logfile_disk_full"]++; }
        else if (pick == 1) { path = dir + "/no-such-directory/enginelog.txt"; counters["fault_logfile_unopenable"]++; }
        else { log_path = dir + "/enginelog_" + std::to_string(getpid()) + ".txt"; path = log_path; }
        log_option_sent = true;
        l.replace(l.find("@LOG@"), 5, path);
        inq.push_back(l);
        counters["logfile_option"]++;
    }
    else
        inq.push_back(op.line.find("@BOOK@") != std::string::npos ? book_substitute(this, op.line) : op.line);
    trace_event(0x5E4D, fnv1a(FNV_INIT, op.line.data(), op.line.size()), uint64_t(inq.size()));
    gui_note_sent(op.line);
    // faults attached to a go are bound to its GoRec
    if (starts_with(op.line, "go") && cur_go >= 0) gos[cur_go].faults = op.faults;
    if (op.hold) hold_search = true;
}

void World::on_reader_idle()
{
    // reader is about to block on an empty pipe
    hold_search = false;
}

// the reader thread has taken `line` out of the pipe (it holds the baton)
void World::on_line_consumed(Task* t, const std::string& line)
{
    TSAN_ACQUIRE(&gui_sync);
    int s = int(seq++);
    if (g_debug) fprintf(stderr, "[consume seq %d clock %ld] %s\n", s, (long)clock_ns, line.c_str());
    {
        // the book path names a per-process scratch file: keep it out of the trace hash
        size_t bp = line.find("Polyglot Book value");
        if (bp == std::string::npos) bp = line.find("Logfile value");
        size_t hl = bp == std::string::npos ? line.size() : bp;
        trace_event(0xC0115, fnv1a(FNV_INIT, line.data(), hl), uint64_t(s));
    }
    (void)t;
    last_consumed = line;
    if (starts_with(line, "go"))
    {
        for (auto& g : gos)
            if (!g.consumed)
            {
                g.consumed = true;
                g.consumed_seq = s;
                consuming_go = g.index;
                break;
            }
    }
    else if (line == "stop")
    {
        ++stop_lines_consumed;
        if (cur_go >= 0)
        {
            GoRec& g = gos[cur_go];
            // a stop that was sent before this go (stray, or left over from an earlier go) is not this go's stop
            if (g.stop_sent && !g.stop_consumed && stop_lines_consumed >= g.stop_line_no)
            {
                g.stop_consumed = true;
                // classify the window the search task is in
                std::string w = "W?";
                Task* st = g.task >= 0 ? &tasks[g.task] : nullptr;
                if (!g.consumed || !st) w = "Wpre";
                else if (g.bestmoves > 0 || st->state == ST_DONE) w = "W6_after_bestmove";
                else if (!st->arrived) w = "W0_not_arrived";
                else
                {
                    switch (st->last_point)
                    {
                    case PT_GO_ENTRY: w = "W1_go_entry"; break;
                    case PT_GO_AFTER_INIT: w = "W2_after_init"; break;
                    case PT_GO_AFTER_RESET: w = "W3_after_reset"; break;
                    case PT_ITER_DONE: w = "W5_between_iterations"; break;
                    case PT_GO_BEFORE_BESTMOVE: w = "W6_before_bestmove"; break;
                    case PT_CLOCK: w = "W7_in_clock_read"; break;
                    case PT_OUT_LINE:
                    case PT_OUT_PART:
                    case PT_IO_LOCK_BLOCKED: w = "W5_in_output"; break;
                    default: w = st->nodes <= 200 ? "W4_node_le200" : "W4_node_gt200"; break;
                    }
                }
                counters["window_" + w]++;
                g.stop_window = w;
            }
        }
    }
    else if (line == "isready")
    {
        for (auto& r : readys)
            if (!r.consumed)
            {
                r.consumed = true;
                r.reader_yields_at_consume = tasks[0].yields;
                r.search_alive_at_consume = live_search_tasks() > 0;
                break;
            }
    }
}

void World::on_spawn(Task* t)
{
    if (consuming_go >= 0)
    {
        GoRec& g = gos[consuming_go];
        g.task = t->id;
        t->go_index = g.index;
        // node-indexed faults
        for (auto& f : g.faults)
            if (f.kind == F_STALL || f.kind == F_TT_POISON || f.kind == F_WALL_JUMP) t->node_faults.push_back(f);
        std::sort(t->node_faults.begin(), t->node_faults.end(), [](const Fault& a, const Fault& b) { return a.k < b.k; });
        if (g.watch_armed)
        {
            t->watch_armed = true;
            t->watch_point = g.watch_point;
            t->watch_k = g.watch_k;
        }
        consuming_go = -1;
    }
}

void World::on_task_done(Task* t)
{
    if (t->go_index >= 0)
    {
        GoRec& g = gos[t->go_index];
        g.task_done = true;
        if (g.bestmoves == 0 && g.root_has_moves) violation("C05", "no-bestmove", "go #" + std::to_string(g.index) + " '" + g.line + "' task ended, no bestmove line");
    }
}

void World::on_go_entry(Task* t)
{
    if (t->go_index < 0) return;
    GoRec& g = gos[t->go_index];
    engine::Search* s = static_cast<engine::Search*>(t->search_obj);
    for (auto& f : g.faults)
    {
        if (f.kind == F_POLL_PHASE)
        {
            s->check_limits_counter = f.a;
            counters["fault_poll_phase"]++;
        }
        if (f.kind == F_STALL_POINT && f.k == PT_GO_ENTRY)
        {
            clock_ns += f.a * 1000;
            counters["fault_stall"]++;
        }
    }
    g.entry_clock = clock_ns;
    g.entered = true;
#if defined(VERIF_TSAN)
    g_tsan_stop_flag_addr[t->id & 3] = (void*)&s->stop_search;
#endif
    if (monitors_on) monitor_go_entry(t, s);
}

void World::on_go_phase(Task* t, int point)
{
    if (t->go_index < 0) return;
    GoRec& g = gos[t->go_index];
    for (auto& f : g.faults)
        if (f.kind == F_STALL_POINT && f.k == point && !(point == PT_ITER_DONE && t->point_count[PT_ITER_DONE] != f.b))
        {
            clock_ns += f.a * 1000;
            counters["fault_stall"]++;
        }
    if (point == PT_ITER_DONE) g.iterations_done++;
    if (point == PT_GO_AFTER_RESET) g.entry_clock = clock_ns;  // the engine reads its start time right after this point
}

void World::on_before_bestmove(Task* t)
{
    if (t->go_index < 0) return;
    if (monitors_on && !uci_destroyed) monitor_before_bestmove(t, static_cast<engine::Search*>(t->search_obj));
}

void World::on_stop_exit(Task*)
{
    if (cur_go >= 0)
    {
        GoRec& g = gos[cur_go];
        if (g.stop_consumed && !g.stop_processed)
        {
            g.stop_processed = true;
            Task* st = g.task >= 0 ? &tasks[g.task] : nullptr;
            g.nodes_at_stop = st ? st->nodes : 0;
            g.clock_at_stop = clock_ns;
        }
    }
}

int World::live_search_tasks() const
{
    int n = 0;
    for (int i = 1; i < spawned; ++i)
        if (tasks[i].state != ST_DONE) n++;
    return n;
}

// ----------------------------------------------------- transcript oracle --
static bool parse_int(const std::string& s, int64_t& v)
{
    if (s.empty()) return false;
    char* e = nullptr;
    v = strtoll(s.c_str(), &e, 10);
    return e && *e == 0;
}

void World::on_line_emitted(Task* t, const std::string& line)
{
    TSAN_RELEASE(&gui_sync);
    int s = int(seq++);
    if (g_debug) fprintf(stderr, "[emit task %d seq %d nodes %ld] %s\n", t->id, s, (long)t->nodes, line.c_str());
    trace_event(0x0E71 + (uint64_t(t->id) << 16), fnv1a(FNV_INIT, line.data(), line.size()), uint64_t(s));
    bool mixed = out_line_mixed;
    out_line_mixed = false;
    OutLine ol;
    ol.seq = s;
    ol.task = t->id;
    ol.text = line;
    transcript.push_back(ol);
    counters["lines_out"]++;
    if (mixed) violation("C06", "torn-line", "output line written by more than one thread: '" + line + "'");

    auto tok = split_ws(line);
    if (tok.empty()) return;

    if (tok[0] == "bestmove")
    {
        // which go does it answer?  the search task's own go, or (book path) the same
        GoRec* g = nullptr;
        if (t->go_index >= 0) g = &gos[t->go_index];
        if (!g)
        {
            violation("C05", "unsolicited-bestmove", "bestmove line from a task without go: '" + line + "'");
            return;
        }
        g->bestmoves++;
        if (g->bestmoves > 1)
        {
            violation("C05", "duplicate-bestmove", "go #" + std::to_string(g->index) + " answered twice: '" + line + "'");
            return;
        }
        g->bestmove_seq = s;
        gui_wake = true;
        g->bestmove = tok.size() > 1 ? tok[1] : "";
        g->bestmove_clock = clock_ns;
        g->nodes_at_bestmove = t->nodes;
        check_bestmove(*g, line);
        return;
    }
    if (tok[0] == "info")
    {
        GoRec* g = t->go_index >= 0 ? &gos[t->go_index] : nullptr;
        if (!g)
        {
            violation("C05", "unsolicited-info", "info line from a task without go");
            return;
        }
        check_info(*g, tok, line);
        return;
    }
    if (tok[0] == "readyok")
    {
        if (line != "readyok") violation("C06", "torn-line", "malformed readyok line '" + line + "'");
        for (auto& r : readys)
            if (r.consumed && !r.answered)
            {
                r.answered = true;
                r.answer_seq = s;
                gui_wake = true;
                int64_t steps = tasks[0].yields - r.reader_yields_at_consume;
                if (steps > counters["max_isready_reader_steps"]) counters["max_isready_reader_steps"] = steps;
                // was it answered while a search was running?
                if (live_search_tasks() > 0) counters["readyok_during_search"]++;
                return;
            }
        violation("C06", "unsolicited-readyok", "readyok without isready");
        return;
    }
    if (t->kind == TK_SEARCH)
    {
        // a search thread only ever prints info / bestmove lines
        violation("C06", "torn-line", "unparseable line from search thread: '" + line + "'");
    }
}

void World::check_bestmove(GoRec& g, const std::string& line)
{
    if (!g.root_has_moves) return;  // property quantifies over positions with >= 1 legal move
    ref::RMove m;
    ref::Board b = g.root;
    if (!b.legal_uci(g.bestmove, m))
    {
        std::string cls = "illegal-bestmove";
        if (g.infos.empty()) cls = "illegal-bestmove-before-first-iteration";
        violation("C05", cls, "go #" + std::to_string(g.index) + " '" + g.line + "' in " + g.root.fen() + " answered '" + line + "'");
    }
    else
    {
        if (!g.searchmoves.empty() &&
            std::find(g.searchmoves.begin(), g.searchmoves.end(), g.bestmove) == g.searchmoves.end())
            violation("C09", "bestmove-outside-searchmoves",
                      "'" + g.line + "' in " + g.root.fen() + " answered '" + line + "'");
    }
    if (want_c08) check_c08_bestmove(g);
    if (book) book_check_bestmove(this, g);
    // C09: "answers with its bestmove no later than the completion of iteration d"
    if (g.depth > 0 && !g.infos.empty() && g.infos.back().depth > g.depth)
        violation("C09", "depth-exceeds-limit", "'" + g.line + "' reported depth " + std::to_string(g.infos.back().depth));
}

void World::check_info(GoRec& g, const std::vector<std::string>& tok, const std::string& line)
{
    InfoRec r;
    size_t i = 1;
    bool ok = true;
    std::vector<std::string> pv;
    while (i < tok.size())
    {
        const std::string& k = tok[i];
        if (k == "depth" && i + 1 < tok.size())
        {
            if (!parse_int(tok[i + 1], r.depth))
            {
                // "iterations 1,2,... consecutively": an iteration reported as something that is not a (decimal) number is a gap
                ok = false;
                violation("C09", "depth-sequence", "'" + g.line + "' in " + g.root.fen() + ": info depth '" + tok[i + 1] + "' is not a number (after depth " +
                                                       std::to_string(g.infos.empty() ? 0 : g.infos.back().depth) + "): '" + line + "'");
            }
            i += 2;
        }
        else if (k == "score" && i + 2 < tok.size())
        {
            if (tok[i + 1] == "cp") { r.is_mate = false; ok &= parse_int(tok[i + 2], r.score); }
            else if (tok[i + 1] == "mate") { r.is_mate = true; ok &= parse_int(tok[i + 2], r.score); }
            else ok = false;
            i += 3;
        }
        else if ((k == "nodes" || k == "nps" || k == "tbhits" || k == "hashfull" || k == "time") && i + 1 < tok.size())
        {
            int64_t v;
            ok &= parse_int(tok[i + 1], v);
            if (k == "nodes") r.nodes = v;
            if (k == "time") r.time = v;
            i += 2;
        }
        else if (k == "pv")
        {
            for (++i; i < tok.size(); ++i) pv.push_back(tok[i]);
        }
        else if (k == "string")
        {
            counters["probe_info_string"]++;
            return;  // free text, legal UCI
        }
        else if ((k == "seldepth" || k == "multipv" || k == "currmovenumber" || k == "cpuload" || k == "sbhits" || k == "currmove") && i + 1 < tok.size()) i += 2;
        else if (k == "lowerbound" || k == "upperbound") i += 1;
        else { ok = false; break; }
    }
    if (!ok)
    {
        // not a torn line by itself (that is decided by which threads wrote it); an info line this oracle cannot read
        counters["probe_unparsed_info"]++;
        return;
    }
    if (r.depth < 0) return;  // info without a depth (e.g. currmove only)
    if (g.bestmoves > 0) violation("C09", "info-after-bestmove", "'" + g.line + "': '" + line + "'");
    int64_t expect = g.infos.empty() ? 1 : g.infos.back().depth + 1;
    if (r.depth != expect)
        violation("C09", "depth-sequence", "'" + g.line + "' in " + g.root.fen() + ": info depth " + std::to_string(r.depth) + " after " + std::to_string(expect - 1));
    if (g.depth > 0 && r.depth > g.depth)
        violation("C09", "depth-exceeds-limit", "'" + g.line + "' reported depth " + std::to_string(r.depth));
    // pv legality from the root
    if (g.root_has_moves)
    {
        ref::Board b = g.root;
        int n = 0;
        for (auto& ms : pv)
        {
            ref::RMove m;
            if (!b.legal_uci(ms, m))
            {
                violation("C05", "illegal-pv", "'" + g.line + "' in " + g.root.fen() + ": pv move #" + std::to_string(n + 1) + " '" + ms + "' illegal in '" + line + "'");
                break;
            }
            b.make(m);
            n++;
        }
        if (pv.empty()) counters["probe_empty_pv"]++;
    }
    r.pv = pv;
    r.line = line;
    g.infos.push_back(r);
    counters["info_lines"]++;
    // TRIG_INFO
    if (g.watch_info_armed && int64_t(g.infos.size()) >= g.watch_info_k)
    {
        g.watch_info_armed = false;
        g.watch_info_fired = true;
        gui_wake = true;
    }
}

// --------------------------------------------------------------- C08 ------
void World::check_c08_bestmove(GoRec& g)
{
    if (!g.searchmoves.empty() || poisoned || g.book_active) return;
    if (g.infos.empty()) return;  // no completed iteration (search of depth >= 1 not completed)
    ref::Board b = g.root;
    // (a) mate in one available -> bestmove mates
    {
        bool have_m1 = false;
        bool best_mates = false;
        for (auto& m : b.legal())
        {
            ref::Undo u = b.make(m);
            bool mate = b.in_check(b.side) && b.legal().empty();
            b.unmake(m, u);
            if (mate)
            {
                have_m1 = true;
                if (m.uci() == g.bestmove) best_mates = true;
            }
        }
        if (have_m1)
        {
            counters["c08_mate_in_one_roots"]++;
            if (g.root.halfmove >= 99) counters["c08_mate_in_one_at_hmc99"]++;
            if (!best_mates)
                violation("C08", g.root.halfmove >= 99 ? "mate-in-one-not-played-hmc99" : "mate-in-one-not-played",
                          "'" + g.line + "' in " + g.root.fen() + " answered " + g.bestmove);
        }
    }
    // (b) final info line with a mate score
    const InfoRec& last = g.infos.back();
    if (last.is_mate)
    {
        counters["c08_mate_announcements"]++;
        int64_t y = last.score;
        ref::Board r = g.root;
        if (y == 0 || last.line.find("mate -0") != std::string::npos)
        {
            // "mate 0"/"mate -0": the side to move would have to be mated already
            if (!(r.in_check(r.side) && r.legal().empty()))
            {
                counters["c08_mate0"]++;
                violation("C08", "mate0-announced", "'" + g.line + "' in " + g.root.fen() + ": '" + last.line + "'");
            }
            return;
        }
        int64_t n = y > 0 ? y : -y;
        if (n > 7) { counters["c08_undecided_long"]++; return; }
        int res;
        if (n <= 3)
        {
            ref::MateSolver ms(30000000);
            res = y > 0 ? ms.attacker(r, int(n)) : ms.mated_within(r, int(n));
        }
        else
        {
            // longer announcements: ordered, cached search with a node budget; a healthy engine's mates are found at a
            // shallow iteration, only a false announcement makes this expensive
            ref::MateSearch ms(n <= 5 ? 6000000 : 3000000);
            res = y > 0 ? ms.solve(r, int(n)) : ms.def(r, int(n));
            counters["c08_long_announcements_searched"]++;
        }
        if (res == -1) { counters["c08_undecided_budget"]++; return; }
        counters["c08_announcements_decided"]++;
        if (res == 0)
            violation("C08", y > 0 ? "false-mate-announcement" : "false-mated-announcement",
                      "'" + g.line + "' in " + g.root.fen() + ": '" + last.line + "' but no forced mate within " + std::to_string(n) + " moves");
    }
}

// -------------------------------------------------------- node faults -----
static engine::Move random_engine_move(Rng& r)
{
    using namespace engine;
    uint64_t k = r.below(20);
    if (k == 0) return KING_CASTLING_MOVE;
    if (k == 1) return QUEEN_CASTLING_MOVE;
    Square f = Square(r.below(64)), t = Square(r.below(64));
    if (k < 5)
    {
        // promotion-shaped
        bool white = r.chance(0.5);
        f = make_square(white ? RANK_7 : RANK_2, File(r.below(8)));
        t = make_square(white ? RANK_8 : RANK_1, File(r.below(8)));
        return create_promotion(f, t, PieceKind(KNIGHT + r.below(4)));
    }
    return create_promotion(f, t, NO_PIECE_KIND);
}

void poison_entry(World* w, uint64_t key, uint64_t eseed, const engine::Position* pos_for_plausible)
{
    using namespace engine;
    Rng r(eseed);
    Move mv = random_engine_move(r);
    if (pos_for_plausible && r.chance(0.5))
    {
        // a move that is pseudo-plausible here: from a square holding an own piece to anywhere,
        // or a legal move of this very position (then only score/depth/flag are foreign)
        Move buf[MAX_MOVES];
        Move* e = generate_moves(*pos_for_plausible, pos_for_plausible->color(), buf);
        if (e != buf && r.chance(0.5)) mv = buf[r.below(uint64_t(e - buf))];
        else
        {
            for (int tries = 0; tries < 20; ++tries)
            {
                Square f = Square(r.below(64));
                Piece p = pos_for_plausible->piece_at(f);
                if (p != NO_PIECE && get_color(p) == pos_for_plausible->color())
                {
                    mv = create_promotion(f, Square(r.below(64)), NO_PIECE_KIND);
                    break;
                }
            }
        }
    }
    int depth = int(r.below(81));
    tt::Flag flag = tt::Flag(r.below(3));
    int64_t score;
    switch (r.below(4))
    {
    case 0: score = r.range(-3000, 3000); break;
    case 1: score = VALUE_MATE - int64_t(r.below(60)); break;
    case 2: score = -VALUE_MATE + int64_t(r.below(60)); break;
    default: score = r.range(-VALUE_MATE, VALUE_MATE); break;
    }
    tt::TTEntry e(score, depth, flag, mv);
    if (!w->uci) return;
    w->uci->ttable.insert(key, e);
    if (r.chance(0.3))
    {
        bool found = false;
        auto* ent = w->uci->ttable.probe(key, found);
        if (found) ent->epoch -= 1;  // stale epoch
    }
    w->poisoned = true;
    w->counters["fault_tt_poison"]++;
}

static void apply_node_faults(Task* t, const engine::Position* pos)
{
    while (t->nf_next < t->node_faults.size() && t->node_faults[t->nf_next].k <= t->nodes)
    {
        const Fault& f = t->node_faults[t->nf_next++];
        if (f.kind == F_STALL)
        {
            W->clock_ns += f.a * 1000;
            W->counters["fault_stall"]++;
        }
        else if (f.kind == F_WALL_JUMP)
        {
            W->wall_jump_ns += f.a * 1000;
            W->counters[f.a < 0 ? "fault_wall_clock_back" : "fault_wall_clock_forward"]++;
        }
        else if (f.kind == F_TT_POISON)
        {
            poison_entry(W, pos->hash(), uint64_t(f.a), pos);
            W->counters["fault_tt_poison_midsearch"]++;
        }
    }
}

// ------------------------------------------------------------ uci thread --
static void* uci_thread_main(void*)
{
    Task* t = &W->tasks[0];
    tl_task = t;
    task_wait_go(t);
    t->arrived = true;
    t->state = ST_RUNNING;
    t->pthread_id = (unsigned long)pthread_self();
    W->uci->loop();
    {
        // what engine/main.cpp does next: `Uci uci` is a local of main(), so it is destroyed on return, then exit() runs
        // while any other thread is still running (until exit_group).  The reader task plays main() here.
        if (W->live_search_tasks() > 0) W->counters["exit_with_live_search_thread"]++;
        W->counters["exit_model"]++;
        engine::Uci* u = W->uci;
        W->uci_destroyed = true;
        if (W->live_search_tasks() > 0) fprintf(stderr, "[exit-model] main() left Uci::loop() and destroys the Uci object while %d search thread(s) still run\n", W->live_search_tasks());
        W->uci = nullptr;
        delete u;
    }
    tl_task = nullptr;
    t->state = ST_DONE;
    t->last_point = PT_THREAD_END;
    hand_to_driver();
    return nullptr;
}

// ------------------------------------------------------------- scheduler --
bool World::eligible(const Task& t) const
{
    switch (t.state)
    {
    case ST_DONE: return false;
    case ST_WAIT_INPUT: return !inq.empty() || in_eof;
    case ST_WAIT_LOCK: return io_owner < 0;
    case ST_WAIT_MUTEX: return t.mutex_epoch_seen != mutex_epoch;
    case ST_WAIT_COND: return t.cond_signalled || (t.wake_ns >= 0 && clock_ns >= t.wake_ns);
    case ST_SLEEP: return clock_ns >= t.wake_ns;
    case ST_WAIT_JOIN: return t.join_target == -2 ? live_search_tasks() == 0 : (t.join_target < 0 || tasks[t.join_target].state == ST_DONE);
    default: break;
    }
    if (t.kind == TK_SEARCH && hold_search) return false;
    return true;
}

static int64_t geometric(Rng& r, int64_t mean)
{
    if (mean <= 1) return 1;
    double u = r.unit();
    int64_t v = int64_t(-std::log(1.0 - u) * double(mean)) + 1;
    return v;
}

void World::pick(std::vector<Task*>& el, Task*& out, int64_t& quantum)
{
    int pol = cfg.sched_override >= 0 ? cfg.sched_override : cfg.policy;
    if (draining) pol = POL_ROUND_ROBIN;
    Task* reader = nullptr;
    std::vector<Task*> searchers;
    for (Task* t : el)
        if (t->kind == TK_READER) reader = t;
        else searchers.push_back(t);
    switch (pol)
    {
    case POL_READER_FIRST:
        if (reader) { out = reader; quantum = 64; return; }
        out = searchers[sched_rng.below(searchers.size())];
        quantum = geometric(sched_rng, q_mean_search);
        return;
    case POL_SEARCH_FIRST:
        if (!searchers.empty())
        {
            out = searchers[sched_rng.below(searchers.size())];
            quantum = geometric(sched_rng, std::min<int64_t>(q_mean_search, 500));
            // the reader is starved only for a drawn number of decisions
            if (reader && starve_left <= 0) { out = reader; quantum = geometric(sched_rng, 4); starve_left = sched_rng.logrange(1, 200); }
            else if (reader) starve_left--;
            return;
        }
        out = reader;
        quantum = 64;
        return;
    case POL_PCT:
    {
        // priorities by task id parity drawn per run, changed at few random decision indices
        if (pct_change_left > 0 && sched_rng.chance(0.002)) { pct_flip = !pct_flip; pct_change_left--; }
        bool reader_high = pct_flip;
        // no task is starved for ever: a low-priority reader still gets the CPU after a drawn number of decisions
        if (reader && !reader_high && !searchers.empty() && --starve_left <= 0) { reader_high = true; starve_left = sched_rng.logrange(1, 200); }
        if (reader && (reader_high || searchers.empty())) { out = reader; quantum = 16; return; }
        out = searchers[sched_rng.below(searchers.size())];
        quantum = geometric(sched_rng, std::min<int64_t>(q_mean_search, 2000));
        return;
    }
    case POL_ROUND_ROBIN:
    {
        rr_next++;
        out = el[size_t(rr_next) % el.size()];
        quantum = out->kind == TK_READER ? 8 : 512;
        return;
    }
    default:
    {
        out = el[sched_rng.below(el.size())];
        quantum = geometric(sched_rng, out->kind == TK_READER ? q_mean_reader : q_mean_search);
        return;
    }
    }
}

// ---------------------------------------------------------- GUI progress --
bool World::quiescent() const
{
    return tasks[0].state == ST_WAIT_INPUT && inq.empty() && live_search_tasks() == 0;
}

// returns true if the GUI made progress
bool World::gui_progress()
{
    bool progress = false;
    if (exit_requested && tasks[0].state == ST_DONE && pc < script->ops.size())
    {
        // the engine process is exiting: the GUI gets nothing more from it
        pc = script->ops.size();
        return true;
    }
    while (pc < script->ops.size())
    {
        const Op& op = script->ops[pc];
        GoRec* g = cur_go >= 0 ? &gos[cur_go] : nullptr;
        bool advance = false;
        switch (op.kind)
        {
        case OP_SEND:
        {
            if (op.trig == TRIG_NONE) { send_line(op); advance = true; break; }
            bool go_live = g && g->bestmoves == 0 && !(g->task_done);
            if (op.trig == TRIG_POINT)
            {
                if (!go_live) { counters["trigger_fallback"]++; send_line(op); advance = true; break; }
                Task* st = g->task >= 0 ? &tasks[g->task] : nullptr;
                if (!op_armed)
                {
                    op_armed = true;
                    if (st)
                    {
                        st->watch_armed = true; st->watch_point = op.point; st->watch_k = op.k; st->trigger_fired = false;
                        // the search is already past that point: deliver now
                        if (op.point != PT_NODE && st->point_count[op.point & 31] >= op.k) { st->watch_armed = false; st->trigger_fired = true; counters["trigger_late"]++; }
                    }
                    else { g->watch_armed = true; g->watch_point = op.point; g->watch_k = op.k; }
                }
                // the awaited point is too far away: the GUI does not wait for ever
                if (st && !st->trigger_fired && st->nodes > cfg.node_cap) { st->watch_armed = false; st->trigger_fired = true; counters["trigger_gave_up"]++; }
                if (st && st->trigger_fired)
                {
                    st->trigger_fired = false;
                    op_armed = false;
                    counters["trigger_fired"]++;
                    send_line(op);
                    advance = true;
                }
                break;
            }
            if (op.trig == TRIG_INFO)
            {
                if (!go_live) { counters["trigger_fallback"]++; send_line(op); advance = true; break; }
                if (!op_armed)
                {
                    op_armed = true; g->watch_info_armed = true; g->watch_info_k = op.k; g->watch_info_fired = false;
                    if (int64_t(g->infos.size()) >= op.k) { g->watch_info_armed = false; g->watch_info_fired = true; counters["trigger_late"]++; }
                }
                {
                    Task* st2 = g->task >= 0 ? &tasks[g->task] : nullptr;
                    if (st2 && !g->watch_info_fired && st2->nodes > cfg.node_cap) { g->watch_info_armed = false; g->watch_info_fired = true; counters["trigger_gave_up"]++; }
                }
                if (g->watch_info_fired)
                {
                    g->watch_info_fired = false;
                    op_armed = false;
                    counters["trigger_fired"]++;
                    send_line(op);
                    advance = true;
                }
                break;
            }
            if (op.trig == TRIG_SIMTIME)
            {
                int64_t due = op_ready_clock + op.k * 1000;
                if (clock_ns >= due) { send_line(op); advance = true; }
                else gui_time_event = due;
                break;
            }
            break;
        }
        case OP_AWAIT_BEST:
        {
            if (!g) { advance = true; break; }
            bool done = g->bestmoves > 0 && (!cfg.await_task_end || g->task_done);
            if (!g->root_has_moves && g->task_done) done = true;
            if (done) { advance = true; break; }
            // the task is gone and never answered: nothing more will come (recorded as a violation in on_task_done)
            if (g->task_done && g->bestmoves == 0) { advance = true; break; }
            break;
        }
        case OP_AWAIT_READY:
        {
            bool all = true;
            for (auto& r : readys)
                if (!r.answered) all = false;
            if (all) { advance = true; break; }
            // reader went back to the pipe without answering
            if (tasks[0].state == ST_WAIT_INPUT && inq.empty())
            {
                for (auto& r : readys)
                    if (r.consumed && !r.answered)
                    {
                        violation("C06", "isready-unanswered", "isready consumed, reader idle again, no readyok");
                        r.answered = true;
                    }
            }
            break;
        }
        case OP_AWAIT_IDLE:
            if (tasks[0].state == ST_WAIT_INPUT && inq.empty()) advance = true;
            if (tasks[0].state == ST_DONE) advance = true;
            break;
        case OP_CHECK:
        case OP_POISON:
            if (quiescent())
            {
                run_driver_op(op);
                advance = true;
            }
            else if (tasks[0].state == ST_DONE) advance = true;
            break;
        }
        if (!advance) break;
        pc++;
        op_armed = false;
        op_ready_clock = clock_ns;
        gui_time_event = -1;
        progress = true;
    }
    return progress;
}

// ------------------------------------------------------------------ run ---
static void fresh_streams()
{
    std::cin.clear();
    std::cout.clear();
    g_inbuf.cur.clear();
    // reset get area
    struct Access : SimInBuf { void reset() { setg(nullptr, nullptr, nullptr); } };
    static_cast<Access&>(g_inbuf).reset();
}

static bool g_process_inited = false;

void process_init()
{
    if (g_process_inited) return;
    g_process_inited = true;
    resolve_real_sync();
    engine::move_bitboards::init();
    engine::bitbase::init();
    engine::endgame::init();
    // zobrist::init() runs once for real (its random_device is wrapped to a fixed seed); its table is used by
    // zobrist mode 4, the other modes fill the (external-linkage) tables from the run PRNG
    engine::zobrist::init();
    std::memcpy(g_real_piece, engine::PIECE_HASH, sizeof g_real_piece);
    std::memcpy(g_real_castling, engine::CASTLING_HASH, sizeof g_real_castling);
    g_real_side = engine::SIDE_HASH;
    std::memcpy(g_real_ep, engine::ENPASSANT_HASH, sizeof g_real_ep);
    Rng r(12345);
    fill_zobrist(r, 0);
    std::cin.rdbuf(&g_inbuf);
    std::cout.rdbuf(&g_outbuf);
    std::cin.tie(nullptr);
}

void model_selftest_or_die()
{
    std::string err;
    if (!ref::ref_selftest(err))
    {
        fprintf(stderr, "reference model self-test failed: %s\n", err.c_str());
        _exit(2);
    }
}

RunResult run_world(const Script& script)
{
    process_init();
    if (script.cfg.prop == "C14") pristine_server_start_once();  // before this process evaluates anything
    TSAN_IGNORE_SCOPE();
    World world;
    W = &world;
    world.script = &script;
    world.cfg = script.cfg;
    world.trace_hash = FNV_INIT;
    Rng zr(mix64(script.cfg.run_seed, 0x20B));
    fill_zobrist(zr, script.cfg.zobrist_mode);
    world.sched_rng.reseed(mix64(script.cfg.run_seed, 0x5C4ED));
    world.aux_rng.reseed(mix64(script.cfg.run_seed, 0xA0C5));
    world.q_mean_search = world.sched_rng.logrange(1, 20000);
    world.q_mean_reader = world.sched_rng.logrange(1, 64);
    world.pct_flip = world.sched_rng.chance(0.5);
    world.pct_change_left = int(world.sched_rng.range(1, 3));
    world.starve_left = world.sched_rng.logrange(1, 200);
    world.monitors_on = script.cfg.mon_c03 || script.cfg.mon_c04 || script.cfg.mon_c07;
    world.want_c08 = script.cfg.prop == "C08";
    fresh_streams();

    world.uci = new engine::Uci();
    world.setup_monitors();

    // reader task
    Task* rt = &world.tasks[0];
    *rt = Task();
    rt->id = 0;
    rt->kind = TK_READER;
    rt->state = ST_READY;
    world.spawned = 1;
    world.claimed = 1;
    pthread_t th;
    pthread_attr_t attr;
    pthread_attr_init(&attr);
    pthread_attr_setstacksize(&attr, 16u << 20);
    TSAN_ACQUIRE(&world.gui_sync);
    if (pthread_create(&th, &attr, uci_thread_main, nullptr) != 0)
    {
        world.infra("pthread_create failed");
        W = nullptr;
        return world.result;
    }
    pthread_attr_destroy(&attr);

    const int64_t STEP_CAP = 4000000;
    const int64_t NODE_HARD_CAP = 12000000;
    const int64_t B_DRAIN = 200000;
    const int64_t B_TIME = 2000000;
    Task* last = nullptr;
    bool hang = false;
    bool engine_deadlock = false;
    bool process_exited = false;   // exit_group with threads still running: nothing to unwind, the process is given up
    size_t sched_pos = 0;

    for (;;)
    {
        world.gui_progress();
        bool script_done = world.pc >= script.ops.size();
        if (script_done && !world.in_eof && world.live_search_tasks() == 0 && world.tasks[0].state == ST_WAIT_INPUT && world.inq.empty())
        {
            world.in_eof = true;  // GUI closes the pipe: reader loop ends
        }
        if (script_done && world.tasks[0].state == ST_DONE && world.live_search_tasks() == 0) break;
        if (world.uci_destroyed && world.tasks[0].state == ST_DONE && world.live_search_tasks() > 0)
        {
            // main() is inside exit(): static destructors, stream flushes, then exit_group.  Until then the other threads
            // run on; how far they get is the scheduler's (here: the seed's) choice.
            if (world.exit_window_nodes < 0)
            {
                world.exit_window_nodes = world.sched_rng.logrange(1, 30000);
                world.exit_nodes_base = world.nodes_total;
            }
            if (world.nodes_total - world.exit_nodes_base >= world.exit_window_nodes || ++world.exit_steps > 20000)
            {
                process_exited = true;
                break;
            }
        }

        std::vector<Task*> el;
        for (int i = 0; i < world.spawned; ++i)
            if (world.eligible(world.tasks[i])) el.push_back(&world.tasks[i]);
        if (el.empty())
        {
            {
                // every engine task is blocked: jump to the next timed event (GUI, timed wait, sleep)
                int64_t next = world.gui_time_event >= 0 && world.clock_ns < world.gui_time_event ? world.gui_time_event : -1;
                for (int i = 0; i < world.spawned; ++i)
                {
                    const Task& tk = world.tasks[i];
                    if ((tk.state == ST_SLEEP || tk.state == ST_WAIT_COND) && tk.wake_ns > world.clock_ns && (next < 0 || tk.wake_ns < next)) next = tk.wake_ns;
                }
                if (next >= 0)
                {
                    // C06, promptness in simulated time: a stop has been handled, the go is unanswered, and no engine thread
                    // can run until a timer of the engine's own (a sleep or a timed wait) expires: the GUI waits for that timer,
                    // not for the search.  Half a second of such waiting is not "a short time after the stop"; a thread that
                    // polls the flag between short sleeps never gets here with so late a deadline.
                    if (world.cur_go >= 0 && !(world.gui_time_event >= 0 && next == world.gui_time_event))
                    {
                        GoRec& g = world.gos[world.cur_go];
                        Task* st = g.task >= 0 ? &world.tasks[g.task] : nullptr;
                        if (st && g.stop_processed && g.bestmoves == 0 && st->state != ST_DONE && !st->force_stop && !g.idle_after_stop_flagged &&
                            next - g.clock_at_stop > 500000000LL)
                        {
                            g.idle_after_stop_flagged = true;
                            world.violation("C06", "no-bestmove-after-stop", "'" + g.line + "' stop consumed in window " + g.stop_window + ": every engine thread sleeps or waits on a timer that expires " +
                                                                                 std::to_string((next - g.clock_at_stop) / 1000000) + " ms of simulated time after the stop, and the go is still unanswered");
                        }
                    }
                    world.clock_ns = next;
                    world.counters["clock_jumps"]++;
                    continue;
                }
            }
            if (world.hold_search) { world.hold_search = false; continue; }
            if (world.uci_destroyed && world.tasks[0].state == ST_DONE) { process_exited = true; break; }
            // every live task waits for the output lock and its owner is one of the waiters (or gone):
            // the engine has dead-locked itself.  The threads cannot be unwound: report and abandon the process.
            {
                bool lock_waiters = false, sync_waiters = false;
                std::string who;
                for (int i = 0; i < world.spawned; ++i)
                {
                    int st = world.tasks[i].state;
                    if (st == ST_WAIT_LOCK) lock_waiters = true;
                    if (st == ST_WAIT_MUTEX || st == ST_WAIT_COND || st == ST_WAIT_JOIN)
                    {
                        sync_waiters = true;
                        who += " task " + std::to_string(i) + (st == ST_WAIT_MUTEX ? " waits for a mutex;" : st == ST_WAIT_COND ? " waits on a condition variable nobody will signal;" : " joins a thread that cannot finish;");
                    }
                }
                if (sync_waiters && !(lock_waiters && world.io_owner >= 0))
                {
                    world.violation("C06", "engine-deadlock", "no thread can run:" + who);
                    if (world.cur_go >= 0 && world.gos[world.cur_go].bestmoves == 0 && world.gos[world.cur_go].consumed)
                        world.violation("C05", "no-bestmove", "'" + world.gos[world.cur_go].line + "' never answered:" + who);
                    engine_deadlock = true;
                    break;
                }
                if (lock_waiters && world.io_owner >= 0)
                {
                    Task& ow = world.tasks[world.io_owner];
                    std::string what = "output lock held by task " + std::to_string(ow.id) + (ow.state == ST_DONE ? " (thread ended)" : ow.state == ST_WAIT_LOCK ? " (itself waiting for it)" : "") +
                                       "; no thread can ever print again";
                    world.violation("C06", "output-lock-deadlock", what);
                    if (world.cur_go >= 0 && world.gos[world.cur_go].bestmoves == 0 && world.gos[world.cur_go].consumed)
                        world.violation("C05", "no-bestmove", "'" + world.gos[world.cur_go].line + "' never answered: " + what);
                    engine_deadlock = true;
                    break;
                }
            }
            if (!script_done && script.ops[world.pc].kind == OP_AWAIT_READY)
            {
                // the readyok never came (e.g. it was swallowed by a torn line) and nothing can run any more
                for (auto& r : world.readys)
                    if (!r.answered) r.answered = true;
                world.violation("C06", "isready-unanswered", "isready consumed, nothing can run any more, no readyok line");
                continue;
            }
            if (!script_done)
            {
                // nothing can run and the GUI waits for something that cannot come
                const Op& op = script.ops[world.pc];
                world.infra("deadlock: no eligible task, GUI blocked at op #" + std::to_string(world.pc) + " kind " + std::to_string(op.kind) + " '" + op.line + "'");
            }
            else
                world.infra("deadlock at end of script");
            break;
        }
        Task* t = nullptr;
        int64_t quantum = 1;
        if (sched_pos < script.sched.size())
        {
            // explicit schedule prefix (replay of a minimised schedule)
            auto d = script.sched[sched_pos++];
            for (Task* e : el)
                if (e->id == d.first) t = e;
            quantum = d.second;
            if (!t) { world.counters["sched_prefix_mismatch"]++; world.pick(el, t, quantum); }
        }
        else
        {
            world.pick(el, t, quantum);
            // no decision to take: a single runnable task and no GUI event pending -> let it run (bounded by the bound checks below)
            if (el.size() == 1 && world.gui_time_event < 0 && quantum < 20000) quantum = 20000;
        }
        if (script.record_sched) world.result.sched_rec.push_back({t->id, quantum});
        if (t != last)
        {
            world.result.ctx_switches++;
            world.sched_sig = fnv1a_u64(fnv1a_u64(world.sched_sig, uint64_t(t->id)), uint64_t(last ? last->last_point : 0) | uint64_t(last && last->kind == TK_SEARCH ? std::min<int64_t>(last->nodes, 1 << 20) : 0) << 8);
            last = t;
        }
        world.result.steps++;
        if (g_debug && world.result.steps < g_debug)
            fprintf(stderr, "[step %ld] run task %d (kind %d state %d last_point %d nodes %ld) quantum %ld | eligible %zu pc %zu clock %ld inq %zu hold %d\n", (long)world.result.steps, t->id, t->kind, t->state,
                    t->last_point, (long)t->nodes, (long)quantum, el.size(), world.pc, (long)world.clock_ns, world.inq.size(), int(world.hold_search));
        if (!drive(t, quantum))
        {
            hang = true;
            world.result.infra_detail = "task " + std::to_string(t->id) + " kind " + std::to_string(t->kind) + " state " + std::to_string(t->state) + " last_point " + std::to_string(t->last_point) +
                                        " nodes " + std::to_string(t->nodes) + " arrived " + std::to_string(t->arrived) + " quantum " + std::to_string(quantum);
            break;
        }

        collect_tsan_reports();
        // bounds -------------------------------------------------------
        if (world.cur_go >= 0)
        {
            GoRec& g = world.gos[world.cur_go];
            Task* st = g.task >= 0 ? &world.tasks[g.task] : nullptr;
            if (st && g.bestmoves == 0 && st->state != ST_DONE && !st->force_stop)
            {
                if (g.stop_processed)
                {
                    // promptness in simulated time as well: a search that sits in a sleep / wait / join after the stop
                    // visits no nodes; a minute of simulated time (or the node bound's worth, whichever is larger) is not "short"
                    int64_t tb = std::max<int64_t>(60000000000LL, B_DRAIN * world.cfg.node_cost_ns);
                    if (world.clock_ns - g.clock_at_stop > tb && st->nodes - g.nodes_at_stop <= B_DRAIN)
                    {
                        world.violation("C06", "no-bestmove-after-stop", "'" + g.line + "' stop consumed in window " + g.stop_window + ", " + std::to_string((world.clock_ns - g.clock_at_stop) / 1000000) +
                                                                             " ms of simulated time later still no bestmove (the search thread is not even searching)");
                        st->force_stop = true;
                    }
                    if (st->nodes - g.nodes_at_stop > B_DRAIN)
                    {
                        world.violation("C06", "no-bestmove-after-stop",
                                        "'" + g.line + "' stop consumed in window " + g.stop_window + ", " + std::to_string(st->nodes - g.nodes_at_stop) + " node visits later still no bestmove");
                        if (g.infinite || g.depth >= 25 || g.movetime >= 1000000 || g.wtime >= 1000000)
                            world.violation("C05", "go-never-answered-after-stop", "'" + g.line + "' in " + g.root.fen() + ": stopped in window " + g.stop_window + ", no bestmove (the harness had to abort the search)");
                        st->force_stop = true;
                    }
                }
                else if (!g.stop_sent)
                {
                    // C05: a go with a node limit "is answered".  The engine polls its limits rarely and counts nodes its own
                    // way, hence the generous factor; a search that has visited a hundred times its budget plus a million
                    // nodes and is still running (nobody sent a stop) has dropped the limit.
                    if (g.nodes > 0 && g.nodes <= 5000 && !g.node_limit_flagged && st->nodes > 100 * g.nodes + 1000000)
                    {
                        g.node_limit_flagged = true;
                        world.violation("C05", "node-limit-ignored", "'" + g.line + "' in " + g.root.fen() + ": " + std::to_string(st->nodes) + " node visits, still searching, no stop was sent");
                        st->force_stop = true;
                    }
                    // finite time limits: must end on their own
                    int64_t tl = -1;
                    if (!g.infinite && g.depth == 0)
                    {
                        if (g.has_movetime && g.movetime != 0) tl = g.movetime;
                        else
                        {
                            int64_t mine = g.root.side == 0 ? g.wtime : g.btime;
                            if (mine != 0) tl = mine;
                        }
                    }
                    if (tl >= 0 || (g.has_movetime && g.movetime < 0))
                    {
                        if (tl < 0) tl = 0;
                        int64_t deadline = g.entry_clock + tl * 1000000;
                        if (g.entered && st->point_count[PT_GO_AFTER_RESET] > 0 && world.clock_ns > deadline)
                        {
                            if (g.nodes_at_deadline < 0) g.nodes_at_deadline = st->nodes;
                            // "terminates on its own" has no promptness in it: the engine may poll rarely and it deliberately
                            // thinks 500 ms on a single-legal-move root whatever the limit says.  Alarm only when it is still
                            // searching both 2M node visits and a full simulated second after the limit.
                            if (st->nodes - g.nodes_at_deadline > B_TIME && world.clock_ns > deadline + 1000000000LL)
                            {
                                world.violation("C09", "time-limit-ignored", "'" + g.line + "': " + std::to_string(st->nodes - g.nodes_at_deadline) + " node visits after the time limit expired, still searching");
                                st->force_stop = true;
                            }
                        }
                    }
                    else if (g.nodes > 0 && g.nodes <= 5000 && st->nodes <= 100 * g.nodes + 1000000)
                    {
                        // a small node limit is a limit: the GUI keeps waiting for the answer it was promised (see above)
                    }
                    else if (st->nodes > world.cfg.node_cap && world.pc < script.ops.size() && script.ops[world.pc].kind == OP_AWAIT_BEST)
                    {
                        // GUI gets impatient
                        Op stop;
                        stop.line = "stop";
                        world.send_line(stop);
                        world.counters["gui_impatient_stop"]++;
                    }
                }
                else if (g.stop_sent && !g.stop_processed && world.tasks[0].state == ST_DONE)
                {
                    st->force_stop = true;
                }
            }
        }
        if (world.result.steps > STEP_CAP || world.nodes_total > NODE_HARD_CAP)
        {
            world.infra("step/node cap reached");
            break;
        }
        if (world.result.infra_error) break;
    }

    RunResult& res = world.result;
    auto abandon = [&]() -> RunResult {
        // threads are parked for ever; the caller must abandon this process after recording the result
        res.counters["hang"] = 1;
        res.trace_hash = world.trace_hash;
        res.sched_sig = world.sched_sig;
        res.nodes = world.nodes_total;
        res.sim_ns = world.clock_ns;
        for (auto& kv : world.counters) res.counters[kv.first] += kv.second;
        size_t n = world.transcript.size();
        for (size_t i = n > 6 ? n - 6 : 0; i < n; ++i) res.transcript_tail.push_back(world.transcript[i].text);
        W = nullptr;
        return res;
    };
    if (process_exited) world.counters["process_exited_with_live_threads"]++;
    if (engine_deadlock || process_exited) return abandon();
    if (hang)
    {
        res.infra_error = true;
        res.infra_detail = "hang: a task did not reach a yield point within " + std::to_string(g_sim_seconds_hang) + " s: " + res.infra_detail;
        // cannot clean up threads; caller must abandon this process
        res.counters["hang"] = 1;
        W = nullptr;
        res.trace_hash = world.trace_hash;
        return res;
    }

    // teardown: make every remaining task finish (round robin, forced stop)
    {
        world.draining = true;
        world.in_eof = true;
        world.hold_search = false;
        int64_t guard = 0;
        const int64_t nodes_before_teardown = world.nodes_total;
        for (;;)
        {
            // the pipe was closed on a running search and main() has destroyed the engine object: that process is exiting,
            // there is nothing to unwind (whatever its threads did until here has been recorded)
            if (world.uci_destroyed && world.tasks[0].state == ST_DONE && world.live_search_tasks() > 0)
            {
                world.counters["process_exited_with_live_threads"]++;
                return abandon();
            }
            bool any = false;
            for (int i = 0; i < world.spawned; ++i)
            {
                Task& t = world.tasks[i];
                if (t.state == ST_DONE) continue;
                any = true;
                if (t.kind == TK_SEARCH) t.force_stop = true;
                if (t.state == ST_WAIT_LOCK && world.io_owner >= 0) continue;
                if (t.state == ST_SLEEP || (t.state == ST_WAIT_COND && t.wake_ns >= 0))
                    world.clock_ns = std::max(world.clock_ns, t.wake_ns);
                if (!world.eligible(t) && t.state != ST_WAIT_INPUT) continue;
                if (!drive(&t, 100000)) { hang = true; break; }
            }
            if (!any || hang) break;
            // a search that does not unwind although its stop flag is set (the harness sets it at every node visit
            // here) cannot be cleaned up: give the process up, the result recorded so far stands
            if (++guard > 100000 || world.nodes_total - nodes_before_teardown > 3000000)
            {
                world.counters["teardown_abandoned"]++;
                hang = true;
                break;
            }
        }
        if (hang)
        {
            // keep what the run established (violations, counters); only a run without any finding is an infrastructure error
            if (res.violations.empty())
            {
                res.infra_error = true;
                res.infra_detail = "hang in teardown";
            }
            res.counters["hang"] = 1;
            res.trace_hash = world.trace_hash;
            res.sched_sig = world.sched_sig;
            res.nodes = world.nodes_total;
            res.sim_ns = world.clock_ns;
            for (auto& kv : world.counters) res.counters[kv.first] += kv.second;
            W = nullptr;
            return res;
        }
    }
    pthread_join(th, nullptr);
    // search threads are detached; they touch nothing of the world after verif_thread_end.

    // end-of-run oracles
    collect_tsan_reports();
    world.end_of_run_checks();

    res.trace_hash = world.trace_hash;
    res.sched_sig = world.sched_sig;
    res.nodes = world.nodes_total;
    res.sim_ns = world.clock_ns;
    for (auto& kv : world.counters) res.counters[kv.first] += kv.second;
    size_t n = world.transcript.size();
    for (size_t i = n > 6 ? n - 6 : 0; i < n; ++i) res.transcript_tail.push_back(world.transcript[i].text);

    world.teardown_monitors();
    book_teardown(&world);
    if (world.log_option_sent) engine::logger.close_file();
    if (!world.log_path.empty()) unlink(world.log_path.c_str());
    delete world.uci;
    world.uci = nullptr;
    W = nullptr;
    return res;
}

void World::end_of_run_checks()
{
    for (auto& g : gos)
    {
        if (!g.consumed) continue;
        if (g.root_has_moves && g.bestmoves == 0 && !result.infra_error && !g.exit_pending)
            violation("C05", "no-bestmove", "go #" + std::to_string(g.index) + " '" + g.line + "' in " + g.root.fen() + " never answered");
        if (!g.stop_window.empty()) counters["stops_consumed"]++;
        if (g.bestmoves > 0 && g.infos.empty()) counters["probe_bestmove_before_first_iteration"]++;
    }
    counters["max_isready_reader_steps"] += 0;
    if (counters["max_isready_reader_steps"] > 64)
        violation("C06", "isready-slow", "readyok needed " + std::to_string(counters["max_isready_reader_steps"]) + " reader steps");
}

}  // namespace sim
