// vsim: batch runner, worker pool, violation gate, minimiser, replay, evidence writer.
#include <dirent.h>
#include <fcntl.h>
#include <signal.h>
#include <sys/stat.h>
#include <sys/wait.h>
#include <unistd.h>

#include <algorithm>
#include <chrono>
#include <cstdio>
#include <cstdlib>
#include <cstring>
#include <fstream>
#include <functional>
#include <map>
#include <set>
#include <sstream>
#include <string>
#include <vector>

#include "sim.h"

using namespace sim;

#ifndef VERIF_VARIANT_NAME
#define VERIF_VARIANT_NAME plain
#endif
#define VERIF_STR2(x) #x
#define VERIF_STR(x) VERIF_STR2(x)
#define VERIF_VARIANT VERIF_STR(VERIF_VARIANT_NAME)

static std::string g_verif_dir = "/verif";
static std::string g_run_dir;

// NB: std::chrono::steady_clock is the *simulated* clock in this binary (link-time wrap)
static double now_s()
{
    struct timespec ts;
    clock_gettime(CLOCK_MONOTONIC, &ts);
    return double(ts.tv_sec) + double(ts.tv_nsec) * 1e-9;
}

// ------------------------------------------------------- (de)serialise ----
static std::string one_line(const std::string& s)
{
    std::string o;
    for (char c : s) o += (c == '\n' || c == '\t' || c == '\r') ? ' ' : c;
    return o;
}

static std::string result_to_text(const RunResult& r)
{
    std::ostringstream o;
    o << "res\t" << r.trace_hash << "\t" << r.sched_sig << "\t" << r.steps << "\t" << r.nodes << "\t" << r.sim_ns << "\t" << r.ctx_switches << "\t"
      << int(r.infra_error) << "\t" << one_line(r.infra_detail) << "\n";
    for (auto& v : r.violations) o << "viol\t" << v.prop << "\t" << one_line(v.cls) << "\t" << one_line(v.detail) << "\n";
    for (auto& kv : r.counters) o << "cnt\t" << kv.first << "\t" << kv.second << "\n";
    for (auto& l : r.transcript_tail) o << "tail\t" << one_line(l) << "\n";
    if (!r.sched_rec.empty())
    {
        o << "schd\t";
        for (size_t i = 0; i < r.sched_rec.size(); ++i) o << (i ? " " : "") << r.sched_rec[i].first << ":" << r.sched_rec[i].second;
        o << "\n";
    }
    o << "end\n";
    return o.str();
}

static std::vector<std::string> split_tab(const std::string& s)
{
    std::vector<std::string> out;
    size_t a = 0;
    for (;;)
    {
        size_t b = s.find('\t', a);
        if (b == std::string::npos) { out.push_back(s.substr(a)); break; }
        out.push_back(s.substr(a, b - a));
        a = b + 1;
    }
    return out;
}

static bool result_from_lines(const std::vector<std::string>& lines, size_t& i, RunResult& r)
{
    r = RunResult();
    bool got = false;
    for (; i < lines.size(); ++i)
    {
        auto f = split_tab(lines[i]);
        if (f[0] == "res" && f.size() >= 9)
        {
            r.trace_hash = strtoull(f[1].c_str(), nullptr, 10);
            r.sched_sig = strtoull(f[2].c_str(), nullptr, 10);
            r.steps = atoll(f[3].c_str());
            r.nodes = atoll(f[4].c_str());
            r.sim_ns = atoll(f[5].c_str());
            r.ctx_switches = atoll(f[6].c_str());
            r.infra_error = atoi(f[7].c_str());
            r.infra_detail = f[8];
            got = true;
        }
        else if (f[0] == "viol" && f.size() >= 4) r.violations.push_back(Violation{f[1], f[2], f[3]});
        else if (f[0] == "cnt" && f.size() >= 3) r.counters[f[1]] = atoll(f[2].c_str());
        else if (f[0] == "tail" && f.size() >= 2) r.transcript_tail.push_back(f[1]);
        else if (f[0] == "schd" && f.size() >= 2)
        {
            std::istringstream ss(f[1]);
            std::string item;
            while (ss >> item)
            {
                size_t c = item.find(':');
                if (c != std::string::npos) r.sched_rec.push_back({atoi(item.substr(0, c).c_str()), atoll(item.substr(c + 1).c_str())});
            }
        }
        else if (f[0] == "end") { ++i; return got; }
        else if (f[0] == "START" || f[0] == "RUN") return got;
    }
    return got;
}

static std::vector<std::string> read_lines(const std::string& path)
{
    std::vector<std::string> out;
    std::ifstream in(path);
    std::string l;
    while (std::getline(in, l)) out.push_back(l);
    return out;
}

static std::string read_file(const std::string& path)
{
    std::ifstream in(path, std::ios::binary);
    std::ostringstream o;
    o << in.rdbuf();
    return o.str();
}

static void write_file(const std::string& path, const std::string& data)
{
    std::ofstream o(path, std::ios::binary | std::ios::trunc);
    o << data;
}

static void mkdirs(const std::string& p)
{
    std::string cur;
    for (size_t i = 0; i < p.size(); ++i)
    {
        cur += p[i];
        if (p[i] == '/' || i + 1 == p.size()) mkdir(cur.c_str(), 0755);
    }
}

// ----------------------------------------------------- child execution ----
struct ChildOutcome
{
    bool ok = false;        // child produced a result
    bool crashed = false;   // died by signal / sanitizer exit code
    int status = 0;
    std::string stderr_tail;
    RunResult res;
};

// run one script in a fresh child process
static ChildOutcome run_in_child(const Script& s)
{
    ChildOutcome out;
    static int counter = 0;
    std::string base = g_run_dir + "/child_" + std::to_string(getpid()) + "_" + std::to_string(counter++);
    std::string outp = base + ".out", errp = base + ".err";
    fflush(stdout);
    fflush(stderr);
    pid_t pid = fork();
    if (pid == 0)
    {
        int efd = open(errp.c_str(), O_WRONLY | O_CREAT | O_TRUNC, 0644);
        if (efd >= 0) { dup2(efd, 2); close(efd); }
        RunResult r = run_world(s);
        write_file(outp, result_to_text(r));
        _exit(0);
    }
    int st = 0;
    waitpid(pid, &st, 0);
    out.status = st;
    if (WIFEXITED(st) && WEXITSTATUS(st) == 0)
    {
        auto lines = read_lines(outp);
        size_t i = 0;
        out.ok = result_from_lines(lines, i, out.res);
        out.stderr_tail = read_file(errp).substr(0, 20000);
    }
    else
    {
        out.crashed = true;
        std::string e = read_file(errp);
        if (e.size() > 6000) e = e.substr(0, 6000);
        out.stderr_tail = e;
    }
    unlink(outp.c_str());
    unlink(errp.c_str());
    return out;
}

// ------------------------------------------------------ known findings ----
struct Finding
{
    std::string status, prop, cls, needle, commit, text;
};

static std::vector<Finding> load_findings()
{
    std::vector<Finding> out;
    for (auto& l : read_lines(g_verif_dir + "/known_findings.tsv"))
    {
        if (l.empty() || l[0] == '#') continue;
        auto f = split_tab(l);
        if (f.size() < 6) continue;
        out.push_back(Finding{f[0], f[1], f[2], f[3], f[4], f[5]});
    }
    return out;
}

static const Finding* match_finding(const std::vector<Finding>& fs, const Violation& v)
{
    for (auto& f : fs)
    {
        if (f.status != "open") continue;
        if (f.prop != v.prop || f.cls != v.cls) continue;
        if (!f.needle.empty() && f.needle != "*" && v.detail.find(f.needle) == std::string::npos) continue;
        return &f;
    }
    return nullptr;
}

// ------------------------------------------------------------ shrinker ----
static bool has_class(const RunResult& r, const std::string& prop, const std::string& cls)
{
    for (auto& v : r.violations)
        if (v.prop == prop && v.cls == cls) return true;
    return false;
}

static std::string classify_crash(const std::string& err, int status)
{
    size_t q = err.find("runtime error: ");
    if (q != std::string::npos)
    {
        size_t e = err.find('\n', q);
        return one_line(err.substr(q + 15, e == std::string::npos ? std::string::npos : e - q - 15));
    }
    size_t a = err.find("ERROR: AddressSanitizer: ");
    if (a != std::string::npos)
    {
        size_t e = err.find_first_of(" \n", a + 25);
        std::string kind = err.substr(a + 25, e == std::string::npos ? std::string::npos : e - a - 25);
        std::string func;
        size_t f0 = err.find("#0 ", a);
        if (f0 != std::string::npos)
        {
            size_t in = err.find(" in ", f0);
            size_t eol = err.find('\n', f0);
            if (in != std::string::npos && in < eol)
            {
                size_t fe = err.find_first_of(" (", in + 4);
                func = err.substr(in + 4, fe == std::string::npos ? std::string::npos : fe - in - 4);
            }
        }
        return one_line("AddressSanitizer " + kind + (func.empty() ? "" : " in " + func));
    }
    size_t p = err.find("SUMMARY: ");
    if (p != std::string::npos)
    {
        size_t e = err.find('\n', p);
        std::string l = err.substr(p + 9, e == std::string::npos ? std::string::npos : e - p - 9);
        // "AddressSanitizer: heap-buffer-overflow /path/file.cpp:12:3 in func" -> drop the path:line (drifts with edits)
        std::istringstream is(l);
        std::string tool, kind, where, in, func;
        is >> tool >> kind >> where >> in;
        std::getline(is, func);
        return one_line(tool + " " + kind + " in" + func);
    }
    size_t g = err.find("Assertion");
    if (g != std::string::npos)
    {
        size_t e = err.find('\n', g);
        return one_line(err.substr(g, e == std::string::npos ? std::string::npos : e - g));
    }
    if (WIFSIGNALED(status)) return "killed by signal " + std::to_string(WTERMSIG(status));
    return "abnormal exit status " + std::to_string(status);
}

struct Shrinker
{
    std::string prop, cls;
    std::string crash_class;
    bool crash_mode = false;   // violation = the child dies
    int budget = 300;
    int runs = 0;

    bool fails(const Script& s)
    {
        runs++;
        ChildOutcome o = run_in_child(s);
        if (o.ok && o.res.infra_error) return false;  // e.g. the candidate script is no longer well-formed
        if (crash_mode) return o.crashed && (crash_class.empty() || classify_crash(o.stderr_tail, o.status) == crash_class);
        return o.ok && has_class(o.res, prop, cls);
    }

    // segments: maximal groups of ops ending in an await / check
    static std::vector<std::pair<size_t, size_t>> segments(const Script& s)
    {
        std::vector<std::pair<size_t, size_t>> seg;
        size_t a = 0;
        for (size_t i = 0; i < s.ops.size(); ++i)
        {
            int k = s.ops[i].kind;
            bool end = k == OP_AWAIT_BEST || k == OP_AWAIT_IDLE || k == OP_CHECK || k == OP_AWAIT_READY;
            // keep "go ... await_best" together: an AWAIT_READY in the middle of a search does not end a segment
            if (k == OP_AWAIT_READY || k == OP_AWAIT_IDLE || k == OP_CHECK)
            {
                bool go_open = false;
                for (size_t j = a; j <= i; ++j)
                {
                    if (s.ops[j].kind == OP_SEND && s.ops[j].line.rfind("go", 0) == 0) go_open = true;
                    if (s.ops[j].kind == OP_AWAIT_BEST) go_open = false;
                }
                if (go_open) end = false;
            }
            if (end)
            {
                seg.push_back({a, i + 1});
                a = i + 1;
            }
        }
        if (a < s.ops.size()) seg.push_back({a, s.ops.size()});
        return seg;
    }

    static Script without(const Script& s, size_t a, size_t b)
    {
        Script t = s;
        t.ops.erase(t.ops.begin() + long(a), t.ops.begin() + long(b));
        return t;
    }

    Script shrink(Script s)
    {
        // 1. drop whole segments (greedy, from the front; later ones usually depend on earlier state)
        bool changed = true;
        while (changed && runs < budget)
        {
            changed = false;
            auto seg = segments(s);
            if (seg.size() <= 1) break;
            // try halves first
            if (seg.size() >= 4)
            {
                size_t mid = seg.size() / 2;
                Script t = without(s, seg[0].first, seg[mid - 1].second);
                if (fails(t)) { s = t; changed = true; continue; }
            }
            for (size_t i = 0; i < seg.size() && runs < budget; ++i)
            {
                Script t = without(s, seg[i].first, seg[i].second);
                if (!t.ops.empty() && fails(t)) { s = t; changed = true; break; }
            }
        }
        // 2. drop single ops that are safe to drop
        for (size_t i = 0; i < s.ops.size() && runs < budget;)
        {
            const Op& op = s.ops[i];
            bool droppable = op.kind == OP_POISON || op.kind == OP_CHECK || op.kind == OP_AWAIT_IDLE ||
                             (op.kind == OP_SEND && (op.line == "ucinewgame" || op.line == "stop" || op.line == "quit" || op.line.rfind("position", 0) == 0 ||
                                                     op.line.rfind("moves", 0) == 0 || op.line.rfind("setoption", 0) == 0));
            if (op.kind == OP_SEND && op.line == "isready" && i + 1 < s.ops.size() && s.ops[i + 1].kind == OP_AWAIT_READY)
            {
                Script t = without(s, i, i + 2);
                if (fails(t)) { s = t; continue; }
            }
            if (droppable)
            {
                Script t = without(s, i, i + 1);
                if (fails(t)) { s = t; continue; }
            }
            ++i;
        }
        // 3. faults
        for (size_t i = 0; i < s.ops.size() && runs < budget; ++i)
            for (size_t j = 0; j < s.ops[i].faults.size() && runs < budget;)
            {
                Script t = s;
                t.ops[i].faults.erase(t.ops[i].faults.begin() + long(j));
                if (fails(t)) s = t;
                else ++j;
            }
        // 4. configuration simplification
        auto try_cfg = [&](std::function<void(Config&)> f) {
            if (runs >= budget) return;
            Script t = s;
            f(t.cfg);
            if (script_to_text(t) == script_to_text(s)) return;
            if (fails(t)) s = t;
        };
        try_cfg([](Config& c) { c.xsputn_preempt = false; });
        try_cfg([](Config& c) { c.zobrist_mode = 0; });
        try_cfg([](Config& c) { c.await_task_end = false; });
        try_cfg([](Config& c) { c.sched_override = POL_READER_FIRST; });
        if (s.cfg.sched_override < 0) try_cfg([](Config& c) { c.sched_override = POL_ROUND_ROBIN; });
        if (s.cfg.sched_override < 0) try_cfg([](Config& c) { c.sched_override = POL_SEARCH_FIRST; });
        try_cfg([](Config& c) { c.node_cost_ns = 1000; });
        // 5. triggers: hold / smaller k
        for (size_t i = 0; i < s.ops.size() && runs < budget; ++i)
        {
            if (s.ops[i].trig == TRIG_POINT && s.ops[i].point == PT_NODE)
            {
                for (int64_t k : {int64_t(1), s.ops[i].k / 8, s.ops[i].k / 2})
                {
                    if (k < 1 || k >= s.ops[i].k || runs >= budget) continue;
                    Script t = s;
                    t.ops[i].k = k;
                    if (fails(t)) { s = t; break; }
                }
            }
        }
        // 6. shorten move lists of position commands (from the front: keep the final position when possible is not
        //    possible without a FEN oracle, so only try dropping trailing moves)
        for (size_t i = 0; i < s.ops.size() && runs < budget; ++i)
        {
            Op& op = s.ops[i];
            if (op.kind != OP_SEND || op.line.rfind("position", 0) != 0) continue;
            size_t mp = op.line.find(" moves ");
            if (mp == std::string::npos) continue;
            for (int round = 0; round < 6 && runs < budget; ++round)
            {
                std::string head = s.ops[i].line.substr(0, mp), tail = s.ops[i].line.substr(mp + 7);
                std::vector<std::string> mv;
                std::istringstream is(tail);
                std::string x;
                while (is >> x) mv.push_back(x);
                if (mv.size() <= 1) break;
                size_t keep = mv.size() / 2;
                std::string nl = head + " moves";
                for (size_t j = 0; j < keep; ++j) nl += " " + mv[j];
                Script t = s;
                t.ops[i].line = nl;
                if (fails(t)) s = t;
                else break;
            }
        }
        // 7. make the schedule explicit and cut it down: record the decisions of the minimal script, keep the shortest
        //    prefix after which plain round-robin still reproduces the violation, merge runs of the same task
        if (!crash_mode && runs < budget)
        {
            Script rec = s;
            rec.record_sched = true;
            runs++;
            ChildOutcome o = run_in_child(rec);
            if (o.ok && has_class(o.res, prop, cls) && !o.res.sched_rec.empty() && o.res.sched_rec.size() <= 20000)
            {
                std::vector<std::pair<int, int64_t>> full = o.res.sched_rec, merged;
                for (auto& d : full)
                {
                    if (!merged.empty() && merged.back().first == d.first) merged.back().second += d.second;
                    else merged.push_back(d);
                }
                Script base = s;
                base.cfg.sched_override = POL_ROUND_ROBIN;
                auto with_prefix = [&](const std::vector<std::pair<int, int64_t>>& v, size_t k) {
                    Script t = base;
                    t.sched.assign(v.begin(), v.begin() + long(k));
                    return t;
                };
                const std::vector<std::pair<int, int64_t>>* use = nullptr;
                if (fails(with_prefix(merged, merged.size()))) use = &merged;
                else if (fails(with_prefix(full, full.size()))) use = &full;
                if (use)
                {
                    size_t lo = 0, hi = use->size();  // smallest failing prefix length in [lo, hi]
                    while (lo < hi && runs < budget)
                    {
                        size_t mid = (lo + hi) / 2;
                        if (fails(with_prefix(*use, mid))) hi = mid;
                        else lo = mid + 1;
                    }
                    Script t = with_prefix(*use, hi);
                    if (fails(t)) s = t;
                }
            }
        }
        return s;
    }
};

// ---------------------------------------------------------------- json ----
static std::string jesc(const std::string& s)
{
    std::string o;
    for (unsigned char c : s)
    {
        if (c == '"') o += "\\\"";
        else if (c == '\\') o += "\\\\";
        else if (c == '\n') o += "\\n";
        else if (c == '\t') o += "\\t";
        else if (c < 0x20) { char b[8]; snprintf(b, sizeof b, "\\u%04x", c); o += b; }
        else o += char(c);
    }
    return o;
}

// ---------------------------------------------------------------- batch ---
struct RunRec
{
    int64_t index = -1;
    uint64_t seed = 0;
    bool finished = false;
    bool crashed = false;
    std::string crash_text;
    RunResult res;
};

static uint64_t prop_hash(const std::string& p) { return fnv1a(FNV_INIT, p.data(), p.size()); }

static bool g_sweep = false;  // enumerated fault space: the run seed is the index itself
static uint64_t run_seed_for(uint64_t batch_seed, const std::string& prop, int64_t index)
{
    if (g_sweep) return uint64_t(index);
    return mix64(mix64(batch_seed, prop_hash(prop)), uint64_t(index)) >> 1;
}

// One worker = one process that forks a fresh child per simulated run (copy-on-write image with the engine tables
// initialised and nothing else): process-wide state a run leaves behind (function-local statics, sanitizer report
// de-duplication, a stuck thread) cannot leak into the next run, so a run is a function of its seed alone.
static void worker_loop(const std::string& prop, const std::string& tier, uint64_t batch_seed, int64_t first, int64_t stride, int64_t total, const std::string& outpath, double deadline)
{
    process_init();
    FILE* f = fopen(outpath.c_str(), "a");
    if (!f) _exit(3);
    for (int64_t i = first; i < total; i += stride)
    {
        if (now_s() > deadline) break;
        uint64_t seed = run_seed_for(batch_seed, prop, i);
        fprintf(f, "START\t%ld\t%lu\n", (long)i, (unsigned long)seed);
        fflush(f);
        pid_t pid = fork();
        if (pid == 0)
        {
            Script s = generate_script(prop, seed, tier);
            RunResult r = run_world(s);
            fprintf(f, "RUN\t%ld\t%lu\n%s", (long)i, (unsigned long)seed, result_to_text(r).c_str());
            fflush(f);
            _exit(0);
        }
        int st = 0;
        if (pid < 0 || waitpid(pid, &st, 0) < 0) { fclose(f); _exit(5); }
        if (!(WIFEXITED(st) && WEXITSTATUS(st) == 0))
        {
            fprintf(f, "CRASH\t%ld\t%lu\t%d\n", (long)i, (unsigned long)seed, st);
            fflush(f);
        }
    }
    fclose(f);
    _exit(0);
}

struct Batch
{
    std::string prop, tier;
    uint64_t seed = 1;
    int64_t runs = 100;
    int workers = 16;
    double budget_s = 1e9;
    std::vector<RunRec> recs;
    double wall = 0;
    int worker_restarts = 0;

    void execute()
    {
        double t0 = now_s();
        double deadline = t0 + budget_s;
        recs.assign(size_t(runs), RunRec());
        struct WS { pid_t pid; int64_t next; std::string path; std::string errpath; };
        std::vector<WS> ws(static_cast<size_t>(workers));
        auto spawn = [&](int w, int64_t first) {
            ws[size_t(w)].path = g_run_dir + "/w" + std::to_string(w) + ".out";
            ws[size_t(w)].errpath = g_run_dir + "/w" + std::to_string(w) + ".err";
            fflush(stdout);
            pid_t pid = fork();
            if (pid == 0)
            {
                int efd = open(ws[size_t(w)].errpath.c_str(), O_WRONLY | O_CREAT | O_TRUNC, 0644);
                if (efd >= 0) { dup2(efd, 2); close(efd); }
                worker_loop(prop, tier, seed, first, workers, runs, ws[size_t(w)].path, deadline);
            }
            ws[size_t(w)].pid = pid;
            ws[size_t(w)].next = first;
        };
        for (int w = 0; w < workers; ++w)
        {
            std::string p = g_run_dir + "/w" + std::to_string(w) + ".out";
            unlink(p.c_str());
            spawn(w, w);
        }
        int alive = workers;
        while (alive > 0)
        {
            int st = 0;
            pid_t pid = wait(&st);
            if (pid < 0) break;
            int w = -1;
            for (int i = 0; i < workers; ++i)
                if (ws[size_t(i)].pid == pid) w = i;
            if (w < 0) continue;
            alive--;
            // parse what the worker wrote; find an unfinished START
            auto lines = read_lines(ws[size_t(w)].path);
            int64_t last_start = -1, last_done = -1;
            uint64_t last_seed = 0;
            for (auto& l : lines)
            {
                if (l.rfind("START\t", 0) == 0) { auto f = split_tab(l); last_start = atoll(f[1].c_str()); last_seed = strtoull(f[2].c_str(), nullptr, 10); }
                if (l.rfind("RUN\t", 0) == 0) { auto f = split_tab(l); last_done = atoll(f[1].c_str()); }
            }
            bool normal = WIFEXITED(st) && WEXITSTATUS(st) == 0;
            if (!normal)
            {
                int64_t resume = -1;
                if (last_start >= 0 && last_start != last_done)
                {
                    RunRec& r = recs[size_t(last_start)];
                    r.index = last_start;
                    r.seed = last_seed;
                    r.crashed = true;
                    std::string e = read_file(ws[size_t(w)].errpath);
                    if (e.size() > 8000) e = e.substr(0, 8000);
                    r.crash_text = "worker died (status " + std::to_string(st) + ")\n" + e;
                    resume = last_start + workers;
                }
                else if (last_done >= 0) resume = last_done + workers;
                else resume = w + workers;  // died before the first START: skip one
                if (WIFEXITED(st) && WEXITSTATUS(st) == 4 && last_done >= 0) resume = last_done + workers;  // hang result was recorded
                if (resume < runs && now_s() < deadline)
                {
                    worker_restarts++;
                    spawn(w, resume);
                    alive++;
                }
            }
        }
        // collect
        for (int w = 0; w < workers; ++w)
        {
            auto lines = read_lines(ws[size_t(w)].path);
            for (size_t i = 0; i < lines.size();)
            {
                if (lines[i].rfind("CRASH\t", 0) == 0)
                {
                    auto f = split_tab(lines[i]);
                    int64_t idx = atoll(f[1].c_str());
                    if (idx >= 0 && idx < runs && !recs[size_t(idx)].finished)
                    {
                        RunRec& rr = recs[size_t(idx)];
                        rr.index = idx;
                        rr.seed = strtoull(f[2].c_str(), nullptr, 10);
                        rr.crashed = true;
                        rr.crash_text = "run process died (status " + (f.size() > 3 ? f[3] : std::string("?")) + ")";
                    }
                    ++i;
                    continue;
                }
                if (lines[i].rfind("RUN\t", 0) == 0)
                {
                    auto f = split_tab(lines[i]);
                    int64_t idx = atoll(f[1].c_str());
                    ++i;
                    RunResult r;
                    if (result_from_lines(lines, i, r) && idx >= 0 && idx < runs)
                    {
                        RunRec& rr = recs[size_t(idx)];
                        rr.index = idx;
                        rr.seed = strtoull(f[2].c_str(), nullptr, 10);
                        rr.finished = true;
                        rr.res = r;
                    }
                }
                else ++i;
            }
            unlink(ws[size_t(w)].path.c_str());
            unlink(ws[size_t(w)].errpath.c_str());
        }
        wall = now_s() - t0;
    }
};

// --------------------------------------------------------------- replay ---
static std::string replay_text(const Script& s, const std::string& prop, const std::string& cls, const std::string& detail, uint64_t trace_hash, bool crash)
{
    std::ostringstream o;
    o << "# vsim replay file (variant " << VERIF_VARIANT << ")\n";
    o << "meta\tproperty=" << prop << "\tclass=" << one_line(cls) << "\tvariant=" << VERIF_VARIANT << "\tcrash=" << int(crash) << "\n";
    o << "expect\ttrace_hash=" << trace_hash << "\tviolation=" << one_line(detail) << "\n";
    o << script_to_text(s);
    return o.str();
}

struct ReplayMeta
{
    std::string prop, cls;
    bool crash = false;
    uint64_t trace_hash = 0;
};

static ReplayMeta parse_meta(const std::string& text)
{
    ReplayMeta m;
    std::istringstream is(text);
    std::string l;
    while (std::getline(is, l))
    {
        auto f = split_tab(l);
        if (f[0] == "meta" || f[0] == "expect")
            for (size_t i = 1; i < f.size(); ++i)
            {
                size_t eq = f[i].find('=');
                if (eq == std::string::npos) continue;
                std::string k = f[i].substr(0, eq), v = f[i].substr(eq + 1);
                if (k == "property") m.prop = v;
                if (k == "class") m.cls = v;
                if (k == "crash") m.crash = atoi(v.c_str());
                if (k == "trace_hash") m.trace_hash = strtoull(v.c_str(), nullptr, 10);
            }
    }
    return m;
}

static int do_replay(const std::string& path, bool verbose)
{
    std::string text = read_file(path);
    if (text.empty()) { fprintf(stderr, "cannot read %s\n", path.c_str()); return 2; }
    Script s;
    std::string err;
    if (!script_from_text(text, s, err)) { fprintf(stderr, "bad replay file: %s\n", err.c_str()); return 2; }
    ReplayMeta m = parse_meta(text);
    ChildOutcome o = run_in_child(s);
    if (m.crash)
    {
        if (o.crashed)
        {
            printf("REPRODUCED property=%s class=%s (process died)\n%s\n", m.prop.c_str(), m.cls.c_str(), o.stderr_tail.substr(0, 3000).c_str());
            printf("VIOLATION property=%s replay=%s\n", m.prop.c_str(), path.c_str());
            return 1;
        }
        printf("NOT-REPRODUCED property=%s class=%s\n", m.prop.c_str(), m.cls.c_str());
        return 0;
    }
    if (!o.ok) { printf("replay: child failed (status %d)\n%s\n", o.status, o.stderr_tail.c_str()); return 2; }
    if (getenv("VSIM_DEBUG") && !o.stderr_tail.empty()) printf("--- stderr ---\n%s--- end stderr ---\n", o.stderr_tail.c_str());
    if (verbose)
    {
        printf("trace_hash=%lu steps=%ld nodes=%ld sim_ms=%.3f\n", (unsigned long)o.res.trace_hash, (long)o.res.steps, (long)o.res.nodes, double(o.res.sim_ns) / 1e6);
        for (auto& v : o.res.violations) printf("  violation %s %s: %s\n", v.prop.c_str(), v.cls.c_str(), v.detail.c_str());
        for (auto& l : o.res.transcript_tail) printf("  | %s\n", l.c_str());
        if (o.res.infra_error) printf("  infra: %s\n", o.res.infra_detail.c_str());
    }
    if (has_class(o.res, m.prop, m.cls))
    {
        printf("REPRODUCED property=%s class=%s trace_hash=%lu (expected %lu)\n", m.prop.c_str(), m.cls.c_str(), (unsigned long)o.res.trace_hash, (unsigned long)m.trace_hash);
        printf("VIOLATION property=%s replay=%s\n", m.prop.c_str(), path.c_str());
        return 1;
    }
    printf("NOT-REPRODUCED property=%s class=%s\n", m.prop.c_str(), m.cls.c_str());
    return 0;
}

// ----------------------------------------------------------------- main ---
static const char* arg_val(int argc, char** argv, const char* name, const char* def)
{
    for (int i = 1; i + 1 < argc; ++i)
        if (!strcmp(argv[i], name)) return argv[i + 1];
    return def;
}
static bool arg_flag(int argc, char** argv, const char* name)
{
    for (int i = 1; i < argc; ++i)
        if (!strcmp(argv[i], name)) return true;
    return false;
}

static int64_t default_runs(const std::string& prop, const std::string& tier);

int main(int argc, char** argv)
{
    setvbuf(stdout, nullptr, _IOLBF, 0);
    if (const char* d = getenv("VERIF_DIR")) g_verif_dir = d;
    g_run_dir = g_verif_dir + "/build/run/" + std::to_string(getpid());
    mkdirs(g_run_dir);
    struct Cleanup { ~Cleanup() { std::string c = "rm -rf '" + g_run_dir + "'"; if (system(c.c_str())) {} } } cleanup;

    model_selftest_or_die();

    if (arg_flag(argc, argv, "--replay"))
    {
        return do_replay(arg_val(argc, argv, "--replay", ""), true);
    }

    std::string prop = arg_val(argc, argv, "--prop", "C05");
    std::string tier = arg_val(argc, argv, "--tier", "quick");
    if (const char* t = getenv("VERIF_TIER"))
        if (!arg_flag(argc, argv, "--tier")) tier = t;
    uint64_t seed = 1;
    if (const char* e = getenv("VERIF_SEED")) seed = strtoull(e, nullptr, 10);
    seed = strtoull(arg_val(argc, argv, "--seed", std::to_string(seed).c_str()), nullptr, 10);

    if (arg_flag(argc, argv, "--print"))
    {
        uint64_t rs = strtoull(arg_val(argc, argv, "--print", "1"), nullptr, 10);
        printf("%s", script_to_text(generate_script(prop, rs, tier)).c_str());
        return 0;
    }
    if (arg_flag(argc, argv, "--show"))
    {
        // print the script of one run and execute it in-process
        uint64_t rs = strtoull(arg_val(argc, argv, "--show", "1"), nullptr, 10);
        Script s = generate_script(prop, rs, tier);
        printf("%s", script_to_text(s).c_str());
        ChildOutcome o = run_in_child(s);
        if (o.crashed) { printf("CRASHED status=%d\n%s\n", o.status, o.stderr_tail.c_str()); return 1; }
        if (!o.stderr_tail.empty()) printf("--- stderr ---\n%s--- end stderr ---\n", o.stderr_tail.c_str());
        printf("trace_hash=%lu sched_sig=%lu steps=%ld nodes=%ld sim_ms=%.3f ctx=%ld\n", (unsigned long)o.res.trace_hash, (unsigned long)o.res.sched_sig, (long)o.res.steps,
               (long)o.res.nodes, double(o.res.sim_ns) / 1e6, (long)o.res.ctx_switches);
        for (auto& v : o.res.violations) printf("violation %s %s: %s\n", v.prop.c_str(), v.cls.c_str(), v.detail.c_str());
        for (auto& kv : o.res.counters) printf("  %s=%ld\n", kv.first.c_str(), (long)kv.second);
        for (auto& l : o.res.transcript_tail) printf("  | %s\n", l.c_str());
        if (o.res.infra_error) printf("infra: %s\n", o.res.infra_detail.c_str());
        return 0;
    }

    if (arg_flag(argc, argv, "--sweep"))
    {
        g_sweep = true;
        tier = "sweep";
    }
    int workers = atoi(arg_val(argc, argv, "--workers", "16"));
    int64_t runs = atoll(arg_val(argc, argv, "--runs", std::to_string(default_runs(prop, tier)).c_str()));
    double budget = atof(arg_val(argc, argv, "--budget-s", tier == "quick" ? "75" : "1500"));
    std::string evidence = arg_val(argc, argv, "--evidence", "");
    bool no_shrink = arg_flag(argc, argv, "--no-shrink");

    if (arg_flag(argc, argv, "--selftest-determinism"))
    {
        // every seed twice, in different worker layouts; trace hashes must agree
        Batch a, b;
        a.prop = b.prop = prop;
        a.tier = b.tier = tier;
        a.seed = b.seed = seed;
        a.runs = b.runs = runs;
        a.workers = workers;
        b.workers = std::max(1, workers / 5);
        a.execute();
        b.execute();
        int64_t mism = 0, both = 0;
        for (int64_t i = 0; i < runs; ++i)
        {
            auto &x = a.recs[size_t(i)], &y = b.recs[size_t(i)];
            if (!x.finished || !y.finished) continue;
            both++;
            if (x.res.trace_hash != y.res.trace_hash || x.res.steps != y.res.steps || x.res.nodes != y.res.nodes)
            {
                mism++;
                if (mism <= 10) printf("MISMATCH index=%ld seed=%lu hash %lu vs %lu steps %ld vs %ld nodes %ld vs %ld\n", (long)i, (unsigned long)x.seed, (unsigned long)x.res.trace_hash,
                                       (unsigned long)y.res.trace_hash, (long)x.res.steps, (long)y.res.steps, (long)x.res.nodes, (long)y.res.nodes);
            }
        }
        printf("determinism prop=%s variant=%s seeds=%ld compared=%ld mismatches=%ld (workers %d vs %d, wall %.1fs + %.1fs)\n", prop.c_str(), VERIF_VARIANT, (long)runs, (long)both, (long)mism,
               a.workers, b.workers, a.wall, b.wall);
        return mism == 0 ? 0 : 2;
    }

    // ----- batch -------------------------------------------------------
    Batch B;
    B.prop = prop;
    B.tier = tier;
    B.seed = seed;
    B.runs = runs;
    B.workers = workers;
    B.budget_s = budget;
    B.execute();

    auto findings = load_findings();
    int64_t finished = 0, infra = 0, crashed = 0;
    std::map<std::string, int64_t> counters;
    std::set<uint64_t> sigs, nontrivial_sigs;
    int64_t total_nodes = 0, total_steps = 0, total_sim_ns = 0, total_ctx = 0;
    std::map<std::string, std::vector<int64_t>> by_class;       // violations of this property
    std::map<std::string, int64_t> other_props;                 // violations of other properties seen on the way
    std::vector<int64_t> crashed_runs;
    std::vector<std::string> infra_samples;
    for (auto& r : B.recs)
    {
        if (r.crashed) { crashed++; crashed_runs.push_back(r.index); continue; }
        if (!r.finished) continue;
        finished++;
        if (r.res.infra_error)
        {
            infra++;
            if (infra_samples.size() < 5) infra_samples.push_back("seed " + std::to_string(r.seed) + ": " + r.res.infra_detail);
            continue;
        }
        for (auto& kv : r.res.counters) counters[kv.first] += kv.second;
        total_nodes += r.res.nodes;
        total_steps += r.res.steps;
        total_sim_ns += r.res.sim_ns;
        total_ctx += r.res.ctx_switches;
        sigs.insert(r.res.sched_sig ^ r.res.trace_hash);
        bool fault_fired = false;
        for (auto& kv : r.res.counters)
            if ((kv.first.rfind("fault_", 0) == 0 || kv.first.rfind("window_", 0) == 0 || kv.first.rfind("probe_", 0) == 0 || kv.first == "ucinewgame" || kv.first == "gui_impatient_stop" ||
                 (kv.first.size() > 4 && kv.first[0] == 'c' && isdigit((unsigned char)kv.first[1]) && isdigit((unsigned char)kv.first[2]) && kv.first[3] == '_')) &&
                kv.second > 0)
                fault_fired = true;
        if (fault_fired && r.res.ctx_switches >= 2) nontrivial_sigs.insert(r.res.sched_sig ^ r.res.trace_hash);
        for (auto& v : r.res.violations)
        {
            if (v.prop == prop) by_class[v.cls].push_back(r.index);
            else other_props[v.prop + ":" + v.cls]++;
        }
    }

    int exit_code = 0;
    std::vector<std::string> violation_lines, known_lines;
    int64_t n_viol_reported = 0;

    std::string replay_dir = g_verif_dir + "/replays/" + prop;
    for (auto& kv : by_class)
    {
        const std::string& cls = kv.first;
        int64_t idx = kv.second[0];
        RunRec& rr = B.recs[size_t(idx)];
        Violation v;
        for (auto& x : rr.res.violations)
            if (x.prop == prop && x.cls == cls) v = x;
        if (const Finding* f = match_finding(findings, v))
        {
            known_lines.push_back("KNOWN-FINDING: property=" + prop + " class=" + cls + " (" + std::to_string(kv.second.size()) + " runs) " + f->text);
            counters["known_finding_runs"] += int64_t(kv.second.size());
            continue;
        }
        // gate 1: same seed, fresh process, identical trace and same violation
        Script s = generate_script(prop, rr.seed, tier);
        ChildOutcome g1 = run_in_child(s);
        if (!g1.ok || g1.res.trace_hash != rr.res.trace_hash || !has_class(g1.res, prop, cls))
        {
            printf("INFRA: violation %s/%s (seed %lu) did not replay identically (hash %lu vs %lu)\n", prop.c_str(), cls.c_str(), (unsigned long)rr.seed, (unsigned long)rr.res.trace_hash,
                   (unsigned long)(g1.ok ? g1.res.trace_hash : 0));
            exit_code = 2;
            continue;
        }
        Script minimal = s;
        int shrink_runs = 0;
        if (!no_shrink)
        {
            Shrinker sh;
            sh.prop = prop;
            sh.cls = cls;
            sh.budget = tier == "quick" ? 120 : 300;
            minimal = sh.shrink(s);
            shrink_runs = sh.runs;
        }
        ChildOutcome g2 = run_in_child(minimal);
        if (!g2.ok || !has_class(g2.res, prop, cls))
        {
            minimal = s;  // fall back to the unminimised script
            g2 = g1;
        }
        std::string detail;
        for (auto& x : g2.res.violations)
            if (x.prop == prop && x.cls == cls) detail = x.detail;
        mkdirs(replay_dir);
        std::string safe = cls;
        for (auto& c : safe)
            if (!isalnum((unsigned char)c) && c != '-' && c != '_') c = '_';
        std::string path = replay_dir + "/" + safe + "_" + std::to_string(rr.seed) + ".replay";
        write_file(path, replay_text(minimal, prop, cls, detail, g2.res.trace_hash, false));
        // gate 2: the file itself, fresh process
        std::string cmd = std::string("'") + argv[0] + "' --replay '" + path + "' > /dev/null 2>&1";
        int rc = system(cmd.c_str());
        if (!(WIFEXITED(rc) && WEXITSTATUS(rc) == 1))
        {
            printf("INFRA: replay file %s does not reproduce (rc=%d)\n", path.c_str(), rc);
            exit_code = 2;
            continue;
        }
        printf("violation class=%s runs=%ld first_seed=%lu minimised_ops=%zu (from %zu, %d shrink runs)\n  %s\n", cls.c_str(), (long)kv.second.size(), (unsigned long)rr.seed, minimal.ops.size(),
               s.ops.size(), shrink_runs, detail.c_str());
        violation_lines.push_back("VIOLATION property=" + prop + " replay=" + path);
        n_viol_reported++;
    }

    // crashed runs: the engine died under a well-formed session (memory error, sanitizer report, abort).
    // For C10 that is the violation itself; for the other properties the outstanding request was never answered.
    if (!crashed_runs.empty())
    {
        std::map<std::string, std::vector<int64_t>> crash_classes;
        std::map<std::string, std::string> crash_text;
        for (size_t ci = 0; ci < crashed_runs.size() && ci < 160; ++ci)
        {
            RunRec& rr = B.recs[size_t(crashed_runs[ci])];
            Script s = generate_script(prop, rr.seed, tier);
            ChildOutcome c1 = run_in_child(s);
            if (!c1.crashed)
            {
                printf("INFRA: run index %ld seed %lu crashed in the batch but not when re-run alone\n%s\n", (long)rr.index, (unsigned long)rr.seed, rr.crash_text.substr(0, 2000).c_str());
                exit_code = 2;
                continue;
            }
            std::string cls = classify_crash(c1.stderr_tail, c1.status);
            crash_classes[cls].push_back(rr.index);
            if (!crash_text.count(cls)) crash_text[cls] = c1.stderr_tail.substr(0, 2500);
        }
        for (auto& kv : crash_classes)
        {
            const std::string& cls = kv.first;
            RunRec& rr = B.recs[size_t(kv.second[0])];
            Violation v{prop, prop == "C10" ? "memory-error" : "engine-crash", cls};
            if (const Finding* f = match_finding(findings, v))
            {
                known_lines.push_back("KNOWN-FINDING: property=" + prop + " class=" + v.cls + " " + cls + " (" + std::to_string(kv.second.size()) + " runs) " + f->text);
                counters["known_finding_runs"] += int64_t(kv.second.size());
                continue;
            }
            Script s = generate_script(prop, rr.seed, tier);
            Script minimal = s;
            if (!no_shrink)
            {
                Shrinker sh;
                sh.crash_mode = true;
                sh.crash_class = cls;
                sh.budget = 60;
                minimal = sh.shrink(s);
            }
            mkdirs(replay_dir);
            std::string path = replay_dir + "/crash_" + std::to_string(rr.seed) + ".replay";
            write_file(path, replay_text(minimal, prop, v.cls, cls, 0, true));
            printf("violation class=%s runs=%ld first_seed=%lu minimised_ops=%zu (from %zu)\n  %s\n%s\n", v.cls.c_str(), (long)kv.second.size(), (unsigned long)rr.seed, minimal.ops.size(), s.ops.size(),
                   cls.c_str(), crash_text[cls].c_str());
            violation_lines.push_back("VIOLATION property=" + prop + " replay=" + path);
            n_viol_reported++;
        }
    }

    for (auto& l : known_lines) printf("%s\n", l.c_str());
    for (auto& l : violation_lines) printf("%s\n", l.c_str());
    if (!violation_lines.empty() && exit_code == 0) exit_code = 1;
    if (infra > 0)
    {
        printf("INFRA: %ld runs ended with an infrastructure error\n", (long)infra);
        for (auto& s : infra_samples) printf("  %s\n", s.c_str());
        if (infra * 50 > finished) exit_code = exit_code == 1 ? 1 : 2;
    }
    if (finished == 0) exit_code = 2;

    // ----- evidence ----------------------------------------------------
    if (evidence.empty()) evidence = g_verif_dir + "/evidence/" + prop + ".json";
    {
        mkdirs(g_verif_dir + "/evidence");
        std::ostringstream o;
        o << "{\n";
        o << "  \"property_id\": \"" << prop << "\",\n";
        o << "  \"tier\": \"" << (tier == "thorough" ? "thorough" : "quick") << "\",\n";
        o << "  \"seed\": " << seed << ",\n";
        o << "  \"level\": \"exploration\",\n";
        o << "  \"wall_s\": " << B.wall << ",\n";
        o << "  \"violations\": " << n_viol_reported << ",\n";
        o << "  \"coverage\": {\n";
        o << "    \"evaluations\": " << finished << ",\n";
        o << "    \"distinct_nontrivial\": " << nontrivial_sigs.size() << ",\n";
        o << "    \"rule\": \"one evaluation = one simulated world (fresh engine::Uci, scripted GUI session, seeded scheduler, simulated clock); distinct = distinct (context-switch signature, event-trace hash); non-trivial = at least one fault, stop-window, rare-condition probe or monitor/oracle comparison counter fired inside the run and at least two context switches happened\",\n";
        o << "    \"distinct_signatures\": " << sigs.size() << ",\n";
        o << "    \"runs_requested\": " << runs << ",\n";
        o << "    \"exhaustive\": " << (g_sweep ? "true" : "false") << ",\n";
        o << "    \"runs_crashed\": " << crashed << ",\n";
        o << "    \"runs_infra_error\": " << infra << ",\n";
        o << "    \"worker_restarts\": " << B.worker_restarts << ",\n";
        o << "    \"runs_per_hour\": " << int64_t(B.wall > 0 ? double(finished) * 3600.0 / B.wall : 0) << ",\n";
        o << "    \"node_visits\": " << total_nodes << ",\n";
        o << "    \"scheduler_decisions\": " << total_steps << ",\n";
        o << "    \"context_switches\": " << total_ctx << ",\n";
        o << "    \"sim_time_ms\": " << total_sim_ns / 1000000 << ",\n";
        o << "    \"variant\": \"" << VERIF_VARIANT << (g_sweep ? "-sweep" : "") << "\",\n";
        o << "    \"counters\": {";
        bool first = true;
        for (auto& kv : counters)
        {
            o << (first ? "" : ", ") << "\"" << jesc(kv.first) << "\": " << kv.second;
            first = false;
        }
        o << "},\n";
        o << "    \"other_property_violations_seen\": {";
        first = true;
        for (auto& kv : other_props)
        {
            o << (first ? "" : ", ") << "\"" << jesc(kv.first) << "\": " << kv.second;
            first = false;
        }
        o << "},\n";
        o << "    \"known_findings_matched\": [";
        for (size_t i = 0; i < known_lines.size(); ++i) o << (i ? ", " : "") << "\"" << jesc(known_lines[i]) << "\"";
        o << "],\n";
        o << "    \"real_components\": [\"Uci::loop and all command handlers\", \"Position\", \"move generation\", \"Search\", \"MoveOrderer\", \"TTable\", \"PositionScorer\", \"endgame\", \"bitbase\", \"TimeManager\", \"PolyglotBook\", \"sync_cout mutex\"],\n";
        o << "    \"stub_components\": [\"engine/main.cpp (harness main)\", \"zobrist::init (tables filled from the run PRNG)\", \"GUI (scripted)\", \"stdin/stdout (simulated streambufs)\", \"steady_clock/system_clock (link-time wrap, discrete-event clock)\", \"OS scheduler (baton over parked real threads)\"],\n";
        o << "    \"samples\": [";
        int ns = 0;
        for (auto& r : B.recs)
        {
            if (!r.finished || r.res.infra_error) continue;
            if (ns >= 3) break;
            Script s = generate_script(prop, r.seed, tier);
            o << (ns ? ", " : "") << "{\"run_seed\": " << r.seed << ", \"trace_hash\": \"" << r.res.trace_hash << "\", \"steps\": " << r.res.steps << ", \"node_visits\": " << r.res.nodes
              << ", \"script\": \"" << jesc(script_to_text(s).substr(0, 1500)) << "\", \"transcript_tail\": [";
            for (size_t i = 0; i < r.res.transcript_tail.size(); ++i) o << (i ? ", " : "") << "\"" << jesc(r.res.transcript_tail[i].substr(0, 200)) << "\"";
            o << "]}";
            ns++;
        }
        o << "]\n";
        o << "  },\n";
        o << "  \"assumptions\": [\"sampling, not enumeration: a clean batch is evidence, not proof\", \"GUI is a sequential well-formed client\", \"reference chess model validated by perft self-test at start of this run\", \"engine built from /repo working tree with -DCHESSPLUSPLUS_VERIF, small tables (TT 65536, pawn cache 1024)\"]\n";
        o << "}\n";
        write_file(evidence, o.str());
    }
    printf("%s %s variant=%s seed=%lu runs=%ld finished=%ld crashed=%ld infra=%ld distinct=%zu nontrivial=%zu nodes=%ld wall=%.1fs exit=%d\n", prop.c_str(), tier.c_str(), VERIF_VARIANT, (unsigned long)seed,
           (long)runs, (long)finished, (long)crashed, (long)infra, sigs.size(), nontrivial_sigs.size(), (long)total_nodes, B.wall, exit_code);
    return exit_code;
}

static int64_t default_runs(const std::string& prop, const std::string& tier)
{
    bool q = tier != "thorough";
    if (prop == "C06") return q ? 1500 : 40000;
    if (prop == "C05") return q ? 800 : 20000;
    if (prop == "C09") return q ? 800 : 20000;
    if (prop == "C03") return q ? 500 : 12000;
    if (prop == "C04") return q ? 500 : 12000;
    if (prop == "C07") return q ? 500 : 12000;
    if (prop == "C08") return q ? 600 : 15000;
    if (prop == "C10") return q ? 400 : 8000;
    if (prop == "C14") return q ? 600 : 15000;
    if (prop == "C19") return q ? 600 : 15000;
    return 100;
}

#if defined(VERIF_ASAN)
extern "C" __attribute__((used)) const char* __asan_default_options() { return "detect_leaks=0:exitcode=77:allocator_may_return_null=1:detect_stack_use_after_return=1:malloc_fill_byte=0:max_malloc_fill_size=1073741824"; }
extern "C" __attribute__((used)) const char* __ubsan_default_options() { return "print_stacktrace=1:halt_on_error=1"; }
#endif

// Every heap object starts zero-filled (except in the valgrind build, where memcheck must keep seeing uninitialised
// memory): a member the engine forgets to initialise then reads as zero in every process, so runs stay a pure function
// of the seed and such a defect shows up as a reproducible violation instead of a flaky one.
#if !defined(VERIF_VG) && !defined(VERIF_TSAN) && !defined(VERIF_ASAN)  // (the sanitizer runtimes bring their own operator new; ASan zero-fills through malloc_fill_byte)
#include <new>
void* operator new(std::size_t n)
{
    void* p = std::malloc(n ? n : 1);
    if (!p) throw std::bad_alloc();
    std::memset(p, 0, n);
    return p;
}
void* operator new[](std::size_t n)
{
    void* p = std::malloc(n ? n : 1);
    if (!p) throw std::bad_alloc();
    std::memset(p, 0, n);
    return p;
}
void* operator new(std::size_t n, const std::nothrow_t&) noexcept
{
    void* p = std::malloc(n ? n : 1);
    if (p) std::memset(p, 0, n);
    return p;
}
void* operator new[](std::size_t n, const std::nothrow_t&) noexcept
{
    void* p = std::malloc(n ? n : 1);
    if (p) std::memset(p, 0, n);
    return p;
}
void operator delete(void* p, const std::nothrow_t&) noexcept { std::free(p); }
void operator delete[](void* p, const std::nothrow_t&) noexcept { std::free(p); }
void operator delete(void* p) noexcept { std::free(p); }
void operator delete[](void* p) noexcept { std::free(p); }
void operator delete(void* p, std::size_t) noexcept { std::free(p); }
void operator delete[](void* p, std::size_t) noexcept { std::free(p); }
#endif
