// Deterministic simulator for the chessplusplus engine: shared declarations.
#ifndef VERIF_SIM_H_
#define VERIF_SIM_H_

#include <cstdint>
#include <deque>
#include <map>
#include <string>
#include <vector>

#include "refmodel.h"
#include "rng.h"

namespace sim
{
// ---------------------------------------------------------------- script --
enum OpKind
{
    OP_SEND = 0,        // GUI writes a line into the engine's stdin pipe
    OP_AWAIT_BEST,      // GUI waits for the bestmove of the outstanding go
    OP_AWAIT_READY,     // GUI waits for readyok
    OP_AWAIT_IDLE,      // GUI waits until the reader has consumed everything and blocks on stdin
    OP_CHECK,           // harness-side check while the engine is quiescent (line = check name + args)
    OP_POISON,          // harness writes a well-typed entry into the transposition table (engine quiescent)
};

enum TrigKind
{
    TRIG_NONE = 0,   // as soon as the GUI reaches the op
    TRIG_POINT,      // when the search task of the outstanding go reaches point `point` for the k-th time
    TRIG_INFO,       // after the k-th info line of the outstanding go
    TRIG_SIMTIME,    // k simulated microseconds after the previous op completed
};

enum FaultKind
{
    F_STALL = 1,       // at node k of this go: simulated clock jumps by a microseconds (thread descheduled)
    F_POLL_PHASE,      // at GO_ENTRY: check_limits_counter := a   (timer fires early / late)
    F_TT_POISON,       // at node k of this go: write entry for the key of the position at that node (a = entry seed)
    F_STALL_POINT,     // at go-phase point k (GO_ENTRY..): clock jumps by a microseconds
    F_BOOK,            // (on setoption Polyglot Book) file fault plan: a = kind, b = arg
    F_WALL_JUMP,       // at node k of this go: the wall clock (system_clock) is stepped by a microseconds (NTP step, operator,
                       // suspend); the monotonic clock is not affected
};

struct Fault
{
    int kind = 0;
    int64_t k = 0, a = 0, b = 0;
};

struct Op
{
    int kind = OP_SEND;
    std::string line;
    int trig = TRIG_NONE;
    int point = 0;      // for TRIG_POINT
    int64_t k = 0;      // trigger count / time
    bool hold = false;  // targeted: keep the search task parked until the reader has consumed this line and is idle again
    std::vector<Fault> faults;
};

struct Config
{
    std::string prop;          // property whose oracles decide (others still run as monitors when cheap)
    uint64_t run_seed = 0;
    int64_t node_cost_ns = 1000;
    int policy = 0;            // see Policy
    int zobrist_mode = 0;      // 0 random, 1 lowbits(pawn words low 18 bits zero), 2 collide
    int64_t node_cap = 300000; // GUI gets impatient and sends stop
    bool xsputn_preempt = false;
    int monitor_rate = 0;      // 0 = monitors off, n = heavy monitors on every n-th node
    bool mon_c03 = false, mon_c04 = false, mon_c07 = false;
    bool await_task_end = false;  // GUI waits for the search task to end, not just for the bestmove line
    int64_t epoch_offset_us = 0;  // system_clock = steady + offset
    int sched_override = -1;      // minimisation: replace the drawn policy
};

enum Policy
{
    POL_RANDOM = 0,     // uniform task, geometric quanta
    POL_READER_FIRST,   // reader always wins when it can run
    POL_SEARCH_FIRST,   // reader starved: runs only when no search task can
    POL_PCT,            // random priorities with few change points
    POL_ROUND_ROBIN,    // fair, fixed quanta
    POL_COUNT
};

struct Script
{
    Config cfg;
    std::vector<Op> ops;
    // explicit schedule prefix (task id, quantum) used instead of the policy while it lasts; after it the policy
    // (cfg.sched_override / cfg.policy) takes over.  Written by the minimiser into replay files.
    std::vector<std::pair<int, int64_t>> sched;
    bool record_sched = false;  // not serialised: ask run_world to return the decisions it took
};

std::string script_to_text(const Script& s);
bool script_from_text(const std::string& text, Script& s, std::string& err);

// ---------------------------------------------------------------- result --
struct Violation
{
    std::string prop;   // property id
    std::string cls;    // violation class (stable identifier used for shrinking / known findings)
    std::string detail; // human readable
};

struct RunResult
{
    uint64_t trace_hash = 0;
    uint64_t sched_sig = 0;     // hash of the context-switch sequence
    std::vector<Violation> violations;
    std::map<std::string, int64_t> counters;  // probes, fault counts, windows
    int64_t steps = 0;          // scheduler decisions
    int64_t nodes = 0;          // hooked node visits
    int64_t sim_ns = 0;
    int64_t ctx_switches = 0;
    bool infra_error = false;
    std::string infra_detail;
    std::vector<std::string> transcript_tail;  // for samples
    std::vector<std::pair<int, int64_t>> sched_rec;  // decisions taken (only when Script::record_sched)
};

// runs one world; everything is derived from the script (which embeds its run seed)
RunResult run_world(const Script& s);

// one-time process initialisation (engine tables, streams)
void process_init();

// reference model self test; exits 2 on failure
void model_selftest_or_die();

// ------------------------------------------------------------ generators --
Script generate_script(const std::string& prop, uint64_t run_seed, const std::string& tier);

// properties this build can decide
const std::vector<std::string>& claimed_properties();

// point ids mirrored from engine/verif_hooks.h (kept in sync by a static_assert in simcore.cpp)
enum
{
    PT_STOP_ENTRY = 1,
    PT_GO_ENTRY = 2,
    PT_GO_AFTER_INIT = 3,
    PT_GO_AFTER_RESET = 4,
    PT_GO_BEFORE_BESTMOVE = 5,
    PT_NODE = 6,
    PT_QNODE = 7,
    PT_AFTER_UNDO = 8,
    PT_IO_LOCK_BLOCKED = 9,
    PT_IO_LOCK_ACQUIRED = 10,
    PT_IO_LOCK_RELEASED = 11,
    PT_STOP_EXIT = 12,
    PT_ITER_DONE = 13,
    PT_THREAD_BEGIN = 20,   // harness-side pseudo points
    PT_THREAD_END = 21,
    PT_OUT_LINE = 22,
    PT_OUT_PART = 23,
    PT_IN_WAIT = 24,
    PT_SPAWN = 25,
    PT_CLOCK = 26,
    PT_MUTEX_BLOCKED = 27, PT_COND_WAIT = 28, PT_SLEEP = 29, PT_JOIN = 30, PT_YIELD = 31,         // a read of the (simulated) steady clock by a search thread
};

}  // namespace sim

#endif
