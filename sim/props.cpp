// Per-property script generators (workload + fault plans).  Everything is
// derived from the run seed; nothing here touches engine code.
#include <algorithm>
#include <cstdio>

#include "sim.h"
#include "workload.h"

namespace sim
{
const std::vector<std::string>& claimed_properties()
{
    static const std::vector<std::string> v = {"C03", "C04", "C05", "C06", "C07", "C08", "C09", "C10", "C14", "C19"};
    return v;
}

Script gen_book_script(uint64_t run_seed, const std::string& tier, Rng& r);  // booksim.cpp

namespace
{
Op send(const std::string& line)
{
    Op o;
    o.kind = OP_SEND;
    o.line = line;
    return o;
}
Op simple(int kind, const std::string& line = "")
{
    Op o;
    o.kind = kind;
    o.line = line;
    return o;
}

struct Gen
{
    Rng& r;
    Script& s;
    PosSpec pos;
    int64_t tmax_ms;  // largest time limit that keeps a search below ~150k node visits

    Gen(Rng& r_, Script& s_) : r(r_), s(s_), tmax_ms(1) {}

    void common_cfg(const std::string& prop)
    {
        Config& c = s.cfg;
        c.prop = prop;
        c.node_cost_ns = r.logrange(200, 2000000);
        c.policy = int(r.below(POL_COUNT));
        c.zobrist_mode = 0;
        c.node_cap = 300000;
        c.xsputn_preempt = r.chance(0.25);
        c.await_task_end = r.chance(0.3);
        c.epoch_offset_us = int64_t(r.below(1000000000));
        tmax_ms = std::max<int64_t>(1, 150000 * c.node_cost_ns / 1000000);
    }

    void set_position(const PosSpec& p, bool newgame_maybe = true)
    {
        pos = p;
        if (newgame_maybe && r.chance(0.3)) s.ops.push_back(send("ucinewgame"));
        s.ops.push_back(send(p.command()));
    }

    // ops that give the engine a small well-formed book holding a few legal moves of the current position
    // (returns the recorded moves); the book file layer is the C19 one, without faults
    std::vector<ref::RMove> load_book_for_current(bool best_policy, bool wide = false)
    {
        ref::Board b = pos.game.cur;
        auto ms = b.legal();
        std::vector<ref::RMove> rec;
        if (ms.empty()) return rec;
        int n = wide ? int(r.range(17, 48)) : int(r.range(1, 3));
        int tie = int(r.range(1, 50));
        std::string spec;
        for (int i = 0; i < n; ++i)
        {
            ref::RMove m = wide && size_t(i) < ms.size() ? ms[size_t(i)] : ms[r.below(ms.size())];
            rec.push_back(m);
            int from = m.from, to = m.to;
            if (ref::kind_of(b.sq[m.from]) == ref::KIND_K && std::abs(ref::file_of(m.to) - ref::file_of(m.from)) == 2)
                to = ref::sq_of(ref::file_of(m.to) == 6 ? 7 : 0, ref::rank_of(m.from));
            int promo = m.promo ? m.promo - 1 : 0;
            int code = promo << 12 | ref::rank_of(from) << 9 | ref::file_of(from) << 6 | ref::rank_of(to) << 3 | ref::file_of(to);
            spec += "F|" + b.fen() + "|" + std::to_string(code) + "|" + std::to_string(wide && r.chance(0.9) ? tie : r.range(1, 50)) + ";";
        }
        s.ops.push_back(simple(OP_AWAIT_IDLE));
        s.ops.push_back(simple(OP_CHECK, "bookfile 0 0 -1 " + spec));
        s.ops.push_back(send("setoption name Polyglot Book value @BOOK@"));
        s.ops.push_back(send(std::string("setoption name Polyglot Sample value ") + (best_policy ? "best" : "random")));
        s.ops.push_back(simple(OP_AWAIT_IDLE));
        return rec;
    }

    std::string searchmoves_clause(double p_single)
    {
        ref::Board b = pos.game.cur;
        auto ms = b.legal();
        if (ms.empty()) return "";
        std::vector<ref::RMove> sub;
        if (r.chance(p_single)) sub.push_back(ms[r.below(ms.size())]);
        else
        {
            double p = r.unit();
            for (auto& m : ms)
                if (r.chance(p)) sub.push_back(m);
            if (sub.empty()) sub.push_back(ms[r.below(ms.size())]);
        }
        // random order
        for (size_t i = sub.size(); i > 1; --i) std::swap(sub[i - 1], sub[r.below(i)]);
        std::string c = " searchmoves";
        for (auto& m : sub) c += " " + m.uci();
        // a GUI may name a move more than once (legal, if odd): one restricting list in six is repeated until it is at
        // least as long as the list of legal moves, so that "as many entries as legal moves" and "no restriction" differ.
        // Decided by a hash of the list itself, not by a draw, so that every other choice of the run stays what it was.
        if (sub.size() < ms.size() && fnv1a(FNV_INIT, c.data(), c.size()) % 6 == 0)
        {
            std::string one = c.substr(12);
            for (size_t n = sub.size(); n < ms.size() + 1 && c.size() < 1500; n += sub.size()) c += one;
        }
        return c;
    }

    // a bounded go line (terminates on its own)
    std::string bounded_go(int max_depth, bool allow_time, bool allow_weird)
    {
        std::string g = "go";
        uint64_t k = r.below(allow_time ? 100 : 40);
        if (k < 30) g += " depth " + std::to_string(r.range(1, max_depth));
        else if (k < 40)
        {
            if (r.chance(0.3))
            {
                // the node limit is the only limit that can end this search in reasonable time
                g += " nodes " + std::to_string(r.logrange(200, 5000));
                uint64_t w = r.below(3);
                g += w == 0 ? " depth 40" : (w == 1 ? " infinite" : " movetime 10000000");
                return g;
            }
            g += " nodes " + std::to_string(r.logrange(1, 20000));
            if (r.chance(0.5)) g += " depth " + std::to_string(r.range(1, max_depth));
            else g += " movetime " + std::to_string(std::max<int64_t>(1, tmax_ms));
        }
        else if (k < 65)
        {
            int64_t t = r.logrange(1, tmax_ms);
            if (allow_weird && r.chance(0.15)) t = r.chance(0.5) ? 0 : -5;
            if (t == 0) g += " movetime 0 depth " + std::to_string(r.range(1, 4));  // movetime 0 means "no movetime" to this engine
            else g += " movetime " + std::to_string(t);
        }
        else if (k < 92)
        {
            int64_t w = r.logrange(1, 20 * tmax_ms), b = r.logrange(1, 20 * tmax_ms);
            if (allow_weird && r.chance(0.2)) { w = r.chance(0.5) ? -20 : 1; b = r.chance(0.5) ? -20 : 1; }
            g += " wtime " + std::to_string(w) + " btime " + std::to_string(b);
            if (r.chance(0.5)) g += " winc " + std::to_string(r.below(uint64_t(tmax_ms) + 1)) + " binc " + std::to_string(r.below(uint64_t(tmax_ms) + 1));
            if (r.chance(0.4)) g += " movestogo " + std::to_string(r.range(1, 60));
        }
        else if (k < 94) g += "";  // bare go: depth 7
        else if (k < 98)
        {
            // a depth limit together with a time or clock limit: the depth limit still binds
            g += " depth " + std::to_string(r.range(1, std::min(max_depth, 5)));
            if (r.chance(0.5)) g += " movetime " + std::to_string(std::max<int64_t>(1, r.logrange(1, 50 * tmax_ms)));
            else g += " wtime " + std::to_string(r.logrange(1, 1000 * tmax_ms)) + " btime " + std::to_string(r.logrange(1, 1000 * tmax_ms));
        }
        else
        {
            // zero clocks: falls through to the default depth
            g += " wtime 0 btime 0";
        }
        return g;
    }

    std::string unbounded_go()
    {
        switch (r.below(4))
        {
        case 0: return "go infinite";
        case 1: return "go depth " + std::to_string(r.range(25, 40));
        case 2: return "go movetime 10000000";
        default: return "go wtime 10000000 btime 10000000";
        }
    }

    int64_t draw_node_k()
    {
        uint64_t k = r.below(100);
        if (k < 45) return r.range(1, 200);
        if (k < 60) return r.range(4090, 4102);
        if (k < 70) return r.range(45050, 45062);
        return r.logrange(1, 120000);
    }

    // op that delivers `line` in a chosen window of the running search
    Op windowed(const std::string& line, int window, bool hold)
    {
        Op o = send(line);
        o.hold = hold;
        switch (window)
        {
        case 0: o.trig = TRIG_NONE; break;  // W0: right behind the go in the pipe
        case 1: o.trig = TRIG_POINT; o.point = PT_GO_ENTRY; o.k = 1; break;
        case 2: o.trig = TRIG_POINT; o.point = PT_GO_AFTER_INIT; o.k = 1; break;
        case 3: o.trig = TRIG_POINT; o.point = PT_GO_AFTER_RESET; o.k = 1; break;
        case 4: o.trig = TRIG_POINT; o.point = PT_NODE; o.k = draw_node_k(); break;
        case 5:
            if (r.chance(0.5)) { o.trig = TRIG_POINT; o.point = PT_ITER_DONE; o.k = r.range(1, 5); }
            else { o.trig = TRIG_INFO; o.k = r.range(1, 5); }
            break;
        case 6: o.trig = TRIG_POINT; o.point = PT_GO_BEFORE_BESTMOVE; o.k = 1; break;
        case 8: o.trig = TRIG_POINT; o.point = PT_CLOCK; o.k = r.range(1, 8); break;  // W7: inside the k-th clock read
        default: o.trig = TRIG_SIMTIME; o.k = r.logrange(1, 200000); break;
        }
        return o;
    }

    int draw_window()
    {
        static const int w[] = {0, 0, 0, 1, 1, 2, 2, 3, 3, 4, 4, 4, 4, 4, 4, 5, 5, 6, 7, 7, 8, 8, 8};
        return w[r.below(sizeof w / sizeof w[0])];
    }

    std::vector<Fault> search_faults(bool poison, int64_t horizon)
    {
        std::vector<Fault> f;
        if (r.chance(0.35))
        {
            Fault x;
            x.kind = F_POLL_PHASE;
            x.a = r.chance(0.5) ? r.range(1, 4) : r.range(1, 4096);
            f.push_back(x);
        }
        int n = int(r.below(3));
        for (int i = 0; i < n; ++i)
        {
            Fault x;
            if (r.chance(0.3))
            {
                x.kind = F_STALL_POINT;
                static const int pts[] = {PT_GO_ENTRY, PT_GO_AFTER_INIT, PT_GO_AFTER_RESET, PT_ITER_DONE};
                x.k = pts[r.below(4)];
                x.b = r.range(1, 4);
            }
            else
            {
                x.kind = F_STALL;
                x.k = r.logrange(1, horizon);
            }
            x.a = r.logrange(1, 5000000);  // microseconds
            f.push_back(x);
        }
        if (r.chance(0.12))
        {
            // the wall clock is stepped while the search runs; the engine's deadlines must not care
            Fault x;
            x.kind = F_WALL_JUMP;
            x.k = r.logrange(1, horizon);
            x.a = r.logrange(1000, 7200000000LL) * (r.chance(0.7) ? -1 : 1);
            f.push_back(x);
        }
        if (poison)
        {
            int m = int(r.range(1, 3));
            for (int i = 0; i < m; ++i)
            {
                Fault x;
                x.kind = F_TT_POISON;
                x.k = r.logrange(1, horizon);
                x.a = int64_t(r.next() >> 1);
                f.push_back(x);
            }
        }
        return f;
    }
};

// the session ends while a search is running: `quit` (after or without a stop), or the GUI simply closes the pipe
// (end of input).  main() then leaves Uci::loop(), destroys the Uci object and exits while the search thread may still run.
static void exit_during_search(Script& s, Gen& g, Rng& r)
{
    int pre = int(r.below(3));
    for (int i = 0; i < pre; ++i)
    {
        g.set_position(gen_position(r, 60, 0));
        s.ops.push_back(send("go depth " + std::to_string(r.range(1, 4))));
        s.ops.push_back(simple(OP_AWAIT_BEST));
    }
    g.set_position(gen_position(r, 60, 0));
    s.ops.push_back(send(r.chance(0.6) ? g.unbounded_go() : "go depth " + std::to_string(r.range(3, 12))));
    bool close = r.chance(0.5);
    if (!close && r.chance(0.3))
    {
        s.ops.push_back(g.windowed("stop", g.draw_window(), r.chance(0.5)));
        s.ops.push_back(send("quit"));
    }
    else
        s.ops.push_back(g.windowed(close ? "@close" : "quit", g.draw_window(), r.chance(0.5)));
}

// --------------------------------------------------------------- C06 ------
// enumerated stop windows (thorough tier): index -> (go kind, window); W0..W3 and W4(k) for k = 1..200,
// search held in the window until the reader has consumed the stop
Script gen_c06_sweep(uint64_t index)
{
    Script s;
    s.cfg.prop = "C06";
    s.cfg.run_seed = index;
    s.cfg.node_cost_ns = 1000;
    s.cfg.policy = POL_ROUND_ROBIN;
    s.cfg.node_cap = 300000;
    static const char* gos[] = {"go infinite", "go depth 30", "go movetime 10000000", "go wtime 10000000 btime 10000000"};
    static const char* poss[] = {"position startpos", "position fen k7/8/1r1q1r1q/b1q1n1q1/1Q1N1Q1B/Q1R1Q1R1/8/7K w - - 0 1", "position fen r3k2r/p1ppqpb1/bn2pnp1/3PN3/1p2P3/2N2Q1p/PPPBBPPP/R3K2R w KQkq - 0 1"};
    uint64_t gk = index % 4, w = (index / 4) % 204, pk = (index / (4 * 204)) % 3;
    s.ops.push_back(send(poss[pk]));
    s.ops.push_back(send(gos[gk]));
    Op st = send("stop");
    st.hold = true;
    if (w == 0) st.trig = TRIG_NONE;
    else if (w <= 3)
    {
        st.trig = TRIG_POINT;
        st.point = w == 1 ? PT_GO_ENTRY : (w == 2 ? PT_GO_AFTER_INIT : PT_GO_AFTER_RESET);
        st.k = 1;
    }
    else
    {
        st.trig = TRIG_POINT;
        st.point = PT_NODE;
        st.k = int64_t(w - 3);
    }
    s.ops.push_back(st);
    s.ops.push_back(simple(OP_AWAIT_BEST));
    return s;
}

Script gen_c06(uint64_t seed, const std::string& tier, Rng& r)
{
    if (tier == "sweep") return gen_c06_sweep(seed);
    Script s;
    s.cfg.run_seed = seed;
    Gen g(r, s);
    g.common_cfg("C06");
    s.cfg.xsputn_preempt = r.chance(0.5);
    if (r.chance(0.08))
    {
        // the book answers: the search thread only prints a bestmove; stop / isready / the next go arrive around it
        s.cfg.await_task_end = false;
        int n = int(r.range(1, 3));
        for (int i = 0; i < n; ++i)
        {
            g.set_position(gen_position(r, 40, 0));
            if (i == 0 || r.chance(0.5)) g.load_book_for_current(r.chance(0.5));
            s.ops.push_back(send(r.chance(0.5) ? "go infinite" : "go depth 3"));
            uint64_t k = r.below(4);
            if (k == 0) s.ops.push_back(send("stop"));
            else if (k == 1) { s.ops.push_back(send("isready")); s.ops.push_back(simple(OP_AWAIT_READY)); }
            s.ops.push_back(simple(OP_AWAIT_BEST));
            if (k == 2) s.ops.push_back(send("stop"));  // late stop, after the book move is out
            // next request immediately
            g.set_position(gen_position(r, 40, 0), false);
            s.ops.push_back(send(g.unbounded_go()));
            s.ops.push_back(g.windowed("stop", r.chance(0.5) ? 4 : g.draw_window(), r.chance(0.5)));
            s.ops.push_back(simple(OP_AWAIT_BEST));
        }
        return s;
    }
    if (r.chance(0.08))
    {
        // isready racing the search thread's bestmove print: every partial write is a preemption point, the reader's
        // readyok may land while "bestmove ..." is half written (that is what the output lock is for)
        s.cfg.xsputn_preempt = true;
        s.cfg.policy = POL_RANDOM;
        int n = int(r.range(1, 3));
        for (int i = 0; i < n; ++i)
        {
            g.set_position(gen_position(r, 60, 0));
            s.ops.push_back(send("go depth " + std::to_string(r.range(1, 3))));
            Op o = send("isready");
            o.trig = TRIG_POINT;
            o.point = PT_GO_BEFORE_BESTMOVE;
            o.k = 1;
            o.hold = false;
            s.ops.push_back(o);
            s.ops.push_back(simple(OP_AWAIT_READY));
            s.ops.push_back(simple(OP_AWAIT_BEST));
        }
        return s;
    }
    if (r.chance(0.06))
    {
        s.cfg.await_task_end = false;
        exit_during_search(s, g, r);
        return s;
    }
    if (r.chance(0.25)) s.ops.push_back(send("setoption name Logfile value @LOG@"));
    int rounds = int(r.range(1, 3));
    bool back_to_back = r.chance(0.25);
    if (back_to_back) s.cfg.await_task_end = false;
    for (int i = 0; i < rounds; ++i)
    {
        g.set_position(gen_position(r, 60, 0));
        if (back_to_back)
        {
            // a search that ends by itself, and the next request sent as soon as its bestmove line is out
            // (the old search thread may still be running its last statements)
            s.ops.push_back(send("go depth " + std::to_string(r.range(1, 3))));
            s.ops.push_back(simple(OP_AWAIT_BEST));
            g.set_position(gen_position(r, 60, 0), false);
        }
        int window = g.draw_window();
        if (back_to_back && window == 0 && r.chance(0.7)) window = 4;
        bool hold = r.chance(0.7);
        std::string go = g.unbounded_go();
        if (window == 6) go = "go depth " + std::to_string(r.range(1, 3));
        Op goop = send(go);
        if (r.chance(0.3) || window == 8) goop.faults = g.search_faults(false, 50000);
        if (window == 8 && r.chance(0.8))
        {
            Fault x;
            x.kind = F_POLL_PHASE;
            x.a = r.range(1, 64);
            goop.faults.push_back(x);
        }
        s.ops.push_back(goop);
        int ready_mode = int(r.below(4));  // 0 none, 1 isready before stop (awaited), 2 isready right before stop (not awaited first), 3 after
        if (ready_mode == 1 && window != 0)
        {
            Op o = g.windowed("isready", int(r.range(1, 5)), r.chance(0.5));
            s.ops.push_back(o);
            s.ops.push_back(simple(OP_AWAIT_READY));
        }
        if (ready_mode == 2)
        {
            Op o = g.windowed("isready", window, hold);
            s.ops.push_back(o);
            s.ops.push_back(send("stop"));
            s.ops.back().hold = hold;
            s.ops.push_back(simple(OP_AWAIT_READY));
        }
        else
        {
            s.ops.push_back(g.windowed("stop", window, hold));
        }
        if (ready_mode == 3)
        {
            s.ops.push_back(send("isready"));
            s.ops.push_back(simple(OP_AWAIT_READY));
        }
        s.ops.push_back(simple(OP_AWAIT_BEST));
    }
    if (r.chance(0.3)) s.ops.push_back(send("quit"));
    return s;
}

// --------------------------------------------------------------- C05 ------
Script gen_session(uint64_t seed, const std::string& prop, Rng& r, int max_go, bool faults_allowed, int max_depth, int pos_mix)
{
    Script s;
    s.cfg.run_seed = seed;
    Gen g(r, s);
    g.common_cfg(prop);
    bool inject = faults_allowed && r.chance(0.6);
    bool poison = inject && prop == "C05" && r.chance(0.6);
    if (inject && prop == "C05")
    {
        uint64_t z = r.below(10);
        s.cfg.zobrist_mode = z < 5 ? 0 : (z < 8 ? 2 : 3);
    }
    int ngo = int(r.range(1, max_go));
    bool have_pos = false;
    // what a GUI does before the first game: handshake, options (the log file option makes the reader copy every line)
    if (r.chance(0.3))
    {
        s.ops.push_back(send("uci"));
        s.ops.push_back(simple(OP_AWAIT_IDLE));
    }
    if (r.chance(0.15)) s.ops.push_back(send("setoption name Logfile value @LOG@"));
    if (r.chance(0.2))
    {
        s.ops.push_back(send("isready"));
        s.ops.push_back(simple(OP_AWAIT_READY));
    }
    for (int i = 0; i < ngo; ++i)
    {
        // engine-specific inspection commands between searches (reader thread, engine idle)
        if (have_pos && r.chance(0.15))
        {
            static const char* insp[] = {"printboard", "hash", "staticeval", "perft 1", "perft 2", "ponderhit"};
            s.ops.push_back(simple(OP_AWAIT_IDLE));
            s.ops.push_back(send(insp[r.below(6)]));
            s.ops.push_back(simple(OP_AWAIT_IDLE));
        }
        // new position, continuation of the game, or the same position again (table carried over)
        uint64_t k = r.below(10);
        if (!have_pos || k < 4)
        {
            g.set_position(gen_position(r, 120, pos_mix));
            have_pos = true;
        }
        else if (k < 7)
        {
            PosSpec p = g.pos;
            playout(p.game, r, int(r.range(1, 3)), 0.3);
            g.set_position(p, false);
        }
        else if (r.chance(0.3))
            s.ops.push_back(send("ucinewgame")), s.ops.push_back(send(g.pos.command()));
        if (r.chance(0.15)) { s.ops.push_back(send("isready")); s.ops.push_back(simple(OP_AWAIT_READY)); }
        if (poison && r.chance(0.6))
        {
            int n = int(r.range(1, 3));
            for (int j = 0; j < n; ++j)
            {
                char buf[64];
                snprintf(buf, sizeof buf, "%lu %d", (unsigned long)(r.next() >> 1), int(r.below(3)));
                s.ops.push_back(simple(OP_POISON, buf));
            }
        }
        if (prop == "C05" && !poison && r.chance(0.06)) g.load_book_for_current(r.chance(0.5));
        bool stopped = r.chance(inject ? 0.45 : 0.15);
        std::string go;
        if (stopped && r.chance(0.5)) go = g.unbounded_go();
        else go = g.bounded_go(max_depth, true, true);
        if (r.chance(0.25)) go += g.searchmoves_clause(0.3);
        Op goop = send(go);
        if (inject) goop.faults = g.search_faults(poison, 20000);
        s.ops.push_back(goop);
        if (stopped)
        {
            int window = g.draw_window();
            s.ops.push_back(g.windowed("stop", window, r.chance(0.6)));
        }
        s.ops.push_back(simple(OP_AWAIT_BEST));
    }
    return s;
}

// --------------------------------------------------------------- C09 ------
Script gen_c09(uint64_t seed, const std::string& tier, Rng& r)
{
    (void)tier;
    Script s;
    s.cfg.run_seed = seed;
    Gen g(r, s);
    g.common_cfg("C09");
    bool inject = r.chance(0.4);
    int ngo = int(r.range(1, 5));
    bool have_pos = false;
    static const char* tiny[] = {
        "8/8/4k3/8/8/3K4/8/8 w - - 0 1", "8/8/4k3/8/8/3K1N2/8/8 w - - 0 1", "8/8/4k3/8/5b2/3K4/8/8 b - - 0 1",
        "k7/8/1K6/8/8/8/8/7Q w - - 0 1", "6k1/5ppp/8/8/8/8/8/R3K3 w Q - 0 1", "8/8/8/8/8/5k2/7q/7K w - - 0 1",
    };
    for (int i = 0; i < ngo; ++i)
    {
        uint64_t kind = r.below(100);
        if (kind >= 88 && kind < 92)
        {
            // searchmoves made only of castling moves (their packed encoding carries no squares)
            static const char* cr[] = {"r3k2r/pppq1ppp/2npbn2/2b1p3/2B1P3/2NPBN2/PPPQ1PPP/R3K2R w KQkq - 0 12", "r3k2r/pppq1ppp/2npbn2/2b1p3/2B1P3/2NPBN2/PPPQ1PPP/R3K2R b KQkq - 0 12",
                                       "r3k2r/8/R7/8/8/8/8/4K2R b Kkq - 6 10", "r3k2r/1R1p1ppp/8/8/8/8/8/5K2 b kq - 0 1", "4k3/8/8/8/8/8/r7/R3K2R w KQ - 0 1"};
            PosSpec p;
            p.start_fen = cr[r.below(5)];
            p.game = ref::Game(ref::Board(p.start_fen));
            g.set_position(p);
            have_pos = true;
            std::string sm;
            for (auto& m : p.game.cur.legal())
                if (ref::kind_of(p.game.cur.sq[m.from]) == ref::KIND_K && std::abs(ref::file_of(m.to) - ref::file_of(m.from)) == 2 && r.chance(0.7)) sm += " " + m.uci();
            if (!sm.empty())
            {
                s.ops.push_back(send("go depth " + std::to_string(r.range(1, 4)) + " searchmoves" + sm));
                s.ops.push_back(simple(OP_AWAIT_BEST));
            }
            continue;
        }
        if (kind >= 92)
        {
            // an opening book is loaded and knows this position; searchmoves still binds
            g.set_position(gen_position(r, 40, 0));
            have_pos = true;
            g.load_book_for_current(r.chance(0.5));
            int ng = int(r.range(1, 3));
            for (int j = 0; j < ng; ++j)
            {
                // restricted and unrestricted requests alternate: whatever one go leaves behind must not leak into the next
                if (r.chance(0.5))
                {
                    s.ops.push_back(send("go depth " + std::to_string(r.range(1, 3))));
                    s.ops.push_back(simple(OP_AWAIT_BEST));
                }
                s.ops.push_back(send("go depth " + std::to_string(r.range(1, 3)) + g.searchmoves_clause(0.4)));
                s.ops.push_back(simple(OP_AWAIT_BEST));
            }
            continue;
        }
        if (kind < 20)
        {
            // huge depth limits on positions whose iterations are tiny
            PosSpec p;
            p.start_fen = tiny[r.below(sizeof tiny / sizeof tiny[0])];
            p.game = ref::Game(ref::Board(p.start_fen));
            g.set_position(p);
            have_pos = true;
            if (r.chance(0.3))
            {
                // the engine's inspection commands earlier in the session (they print through the same stream)
                static const char* insp[] = {"printboard", "hash", "staticeval", "perft 1", "hash"};
                s.ops.push_back(simple(OP_AWAIT_IDLE));
                s.ops.push_back(send(insp[r.below(5)]));
                s.ops.push_back(simple(OP_AWAIT_IDLE));
            }
            static const int ds[] = {39, 40, 41, 42, 60, 100, 1000};
            s.ops.push_back(send("go depth " + std::to_string(ds[r.below(7)])));
            s.ops.push_back(simple(OP_AWAIT_BEST));
            continue;
        }
        if (!have_pos || r.chance(0.5))
        {
            if (r.chance(0.15))
            {
                // under-promotions as searchmoves
                static const char* promo[] = {"8/P1k5/8/8/8/8/5Kp1/8 w - - 0 1", "4k3/1P6/8/8/8/8/6p1/4K2R b K - 0 1", "8/P1k5/8/8/8/8/5Kp1/8 b - - 0 1", "1n2k3/P7/8/8/8/8/7p/4K1N1 w - - 0 1",
                                              "1n2k3/P7/8/8/8/8/7p/4K1N1 b - - 0 1"};
                PosSpec p;
                p.start_fen = promo[r.below(5)];
                p.game = ref::Game(ref::Board(p.start_fen));
                g.set_position(p);
            }
            else
                g.set_position(gen_position(r, 100, 0));
            have_pos = true;
        }
        if (kind < 60)
        {
            // searchmoves after an unrestricted search of the same position left a root entry
            int d = int(r.range(1, 5));
            s.ops.push_back(send("go depth " + std::to_string(d)));
            s.ops.push_back(simple(OP_AWAIT_BEST));
            if (r.chance(0.3)) s.ops.push_back(send(g.pos.command()));
            int d2 = r.chance(0.6) ? int(r.range(1, d)) : int(r.range(1, 6));
            Op goop = send("go depth " + std::to_string(d2) + g.searchmoves_clause(0.35));
            if (inject) goop.faults = g.search_faults(false, 20000);
            s.ops.push_back(goop);
            s.ops.push_back(simple(OP_AWAIT_BEST));
        }
        else
        {
            std::string go = g.bounded_go(8, true, true);
            if (r.chance(0.3)) go += g.searchmoves_clause(0.3);
            Op goop = send(go);
            if (inject) goop.faults = g.search_faults(false, 20000);
            s.ops.push_back(goop);
            s.ops.push_back(simple(OP_AWAIT_BEST));
        }
    }
    return s;
}

// ---------------------------------------------------------- C03 / C04 -----
Script gen_c03_c04(uint64_t seed, const std::string& prop, Rng& r)
{
    Script s = gen_session(seed, prop, r, 4, true, 6, 0);
    s.cfg.mon_c03 = prop == "C03";
    s.cfg.mon_c04 = prop == "C04";
    if (prop == "C04" && r.chance(0.4)) s.cfg.zobrist_mode = 4;  // the engine's own zobrist::init() table
    s.cfg.monitor_rate = prop == "C03" ? 16 : 6;
    s.cfg.node_cap = prop == "C03" ? 60000 : 40000;
    // perft and position replays on the reader thread, observed before/after
    Gen g(r, s);
    g.tmax_ms = 1;
    if (prop == "C03" && r.chance(0.3))
    {
        // a middlegame with the half-move clock close to the limit, searched deep enough for null-move pruning to run
        // at clock 99 and for draw cut-offs to sit right below
        PosSpec p = gen_position(r, 60, 2);
        ref::Board b = p.game.cur;
        b.halfmove = int(r.chance(0.7) ? r.range(95, 99) : r.range(100, 149));  // beyond 100: nobody claimed the draw
        b.ep = -1;
        PosSpec q;
        q.start_fen = b.fen();
        q.game = ref::Game(ref::Board(q.start_fen));
        if (fen_is_sane(q.start_fen) && !q.game.cur.legal().empty())
        {
            s.ops.push_back(send(q.command()));
            s.ops.push_back(send("go depth " + std::to_string(r.range(6, 8))));
            s.ops.push_back(simple(OP_AWAIT_BEST));
        }
    }
    int extra = int(r.range(0, 2));
    for (int i = 0; i < extra; ++i)
    {
        PosSpec p = gen_position(r, 80, 0);
        s.ops.push_back(send(p.command()));
        s.ops.push_back(simple(OP_AWAIT_IDLE));
        if (prop == "C03")
        {
            s.ops.push_back(simple(OP_CHECK, "c03snap"));
            int d = int(r.range(1, 3));
            s.ops.push_back(send("perft " + std::to_string(d)));
            s.ops.push_back(simple(OP_AWAIT_IDLE));
            s.ops.push_back(simple(OP_CHECK, "c03cmp perft " + std::to_string(d)));
        }
        else
        {
            s.ops.push_back(simple(OP_CHECK, "c04"));
            // the same game replayed move by move through `moves`
            if (!p.game.moves.empty() && r.chance(0.5))
            {
                s.ops.push_back(send(p.start_fen.empty() ? "position startpos" : "position fen " + p.start_fen));
                size_t i0 = 0;
                while (i0 < p.game.moves.size())
                {
                    size_t n = size_t(r.range(1, 6));
                    std::string mv = "moves";
                    for (size_t j = i0; j < std::min(p.game.moves.size(), i0 + n); ++j) mv += " " + p.game.moves[j].uci();
                    i0 += n;
                    s.ops.push_back(send(mv));
                    s.ops.push_back(simple(OP_AWAIT_IDLE));
                    s.ops.push_back(simple(OP_CHECK, "c04"));
                }
            }
        }
    }
    if (prop == "C04" && mix64(seed, 0xC04F) % 5 == 0)
    {
        // corner rooks facing each other on an open edge file with all rights intact: rook takes rook corner to corner
        // changes the rights of both sides in one move (as does a king taking an unmoved corner rook).  Own stream, so that
        // the rest of the run is what it was.
        Rng lr(mix64(seed, 0xC04E));
        static const char* open_file[] = {"r3k2r/1pp1pppp/8/8/8/8/1PPPPPPP/R3K2R w KQkq - 0 1",  "r3k2r/1pp1pppp/8/8/8/8/1PPPPPPP/R3K2R b KQkq - 0 1",
                                          "r3k2r/ppp1ppp1/8/8/8/8/PPPPPP2/R3K2R w KQkq - 0 1",   "r3k2r/ppp1ppp1/2n5/8/8/5N2/PPPPPP2/R3K2R b KQkq - 2 9",
                                          "r3k2r/1pp2pp1/8/8/8/8/1PP2PP1/R3K2R w KQkq - 0 1",    "rnbqk2r/1ppp1ppp/8/8/8/8/1PPP1PPP/R1BQK1NR w KQkq - 0 6",
                                          "r3k3/1K6/8/8/8/8/8/8 w q - 0 1",                      "4k2r/6K1/8/8/8/8/8/8 w k - 3 40",
                                          "8/8/8/8/8/8/6k1/4K2R b K - 0 1",                      "8/8/8/8/8/8/1k6/R3K3 b Q - 7 33"};
        PosSpec p;
        p.start_fen = open_file[lr.below(10)];
        p.game = ref::Game(ref::Board(p.start_fen));
        int plies = int(lr.range(1, 6));
        s.ops.push_back(send("position fen " + p.start_fen));
        for (int i = 0; i < plies; ++i)
        {
            auto ms = p.game.cur.legal();
            if (ms.empty()) break;
            std::vector<ref::RMove> corner;
            for (auto& m : ms)
                if ((m.to == 0 || m.to == 7 || m.to == 56 || m.to == 63) && ref::kind_of(p.game.cur.sq[m.to]) == ref::KIND_R) corner.push_back(m);
            ref::RMove pick = !corner.empty() && lr.chance(0.7) ? corner[lr.below(corner.size())] : ms[lr.below(ms.size())];
            p.game.push(pick);
            s.ops.push_back(send("moves " + pick.uci()));
            s.ops.push_back(simple(OP_AWAIT_IDLE));
            s.ops.push_back(simple(OP_CHECK, "c04"));
        }
        if (!p.game.cur.legal().empty())
        {
            g.pos = p;
            s.ops.push_back(send(p.command()));
            s.ops.push_back(send("go depth " + std::to_string(lr.range(2, 4))));
            s.ops.push_back(simple(OP_AWAIT_BEST));
        }
    }
    return s;
}

// --------------------------------------------------------------- C07 ------
Script gen_c07(uint64_t seed, const std::string& tier, Rng& r)
{
    (void)tier;
    Script s;
    s.cfg.run_seed = seed;
    Gen g(r, s);
    g.common_cfg("C07");
    s.cfg.mon_c07 = true;
    s.cfg.monitor_rate = 8;
    s.cfg.node_cap = 30000;
    if (mix64(seed, 0x7106C) % 12 == 0)
    {
        // very long games: the engine's game history grows on demand (08c0d27), so "any length" has no bound of its own.
        // Games that cross the growth points of that table (800, 1600, 3200 entries), checked ply by ply around the
        // crossing and searched just before it, with an irreversible move now and then so that the positions near the
        // end have their earlier occurrences in the most recently filled part only.  Own stream (see C04 above).
        Rng lr(mix64(seed, 0x10A6));
        PosSpec p;
        p.game = ref::Game(ref::Board());
        static const int bounds[] = {800, 1600, 1600, 3200};
        int B = bounds[lr.below(4)];
        int total = B + int(lr.range(3, 30));
        int next_irrev = int(lr.range(40, 140));
        int first_check = B - int(lr.range(2, 8));
        bool searched = false;
        s.cfg.node_cap = 20000;
        while (int(p.game.moves.size()) < total)
        {
            auto ms = p.game.cur.legal();
            if (ms.empty()) break;
            std::vector<ref::RMove> quiet, pawn, capt;
            for (auto& m : ms)
            {
                if (p.game.cur.is_capture(m)) capt.push_back(m);
                else if (ref::kind_of(p.game.cur.sq[m.from]) == ref::KIND_P) { if (!m.promo) pawn.push_back(m); }
                else quiet.push_back(m);
            }
            ref::RMove pick = ms[lr.below(ms.size())];
            if (p.game.cur.halfmove >= next_irrev && (!pawn.empty() || !capt.empty()))
            {
                pick = !pawn.empty() ? pawn[lr.below(pawn.size())] : capt[lr.below(capt.size())];
                next_irrev = int(lr.range(40, 140));
            }
            else if (!quiet.empty())
            {
                pick = quiet[lr.below(quiet.size())];
                if (p.game.moves.size() >= 2 && lr.chance(0.8))
                {
                    ref::RMove back = p.game.moves[p.game.moves.size() - 2];
                    std::swap(back.from, back.to);
                    for (auto& m : quiet)
                        if (m == back) pick = m;
                }
            }
            // never into mate or stalemate
            bool ok = false;
            for (size_t tries = 0; tries <= ms.size() && !ok; ++tries)
            {
                ref::Undo u = p.game.cur.make(pick);
                ok = !p.game.cur.legal().empty();
                p.game.cur.unmake(pick, u);
                if (!ok) pick = ms[tries % ms.size()];
            }
            if (!ok) break;
            p.game.push(pick);
            if (p.game.cur.halfmove > 150) break;
            int n = int(p.game.moves.size());
            if (n >= first_check || lr.chance(0.004))
            {
                s.ops.push_back(send(p.command()));
                s.ops.push_back(simple(OP_AWAIT_IDLE));
                s.ops.push_back(simple(OP_CHECK, "c07"));
                if (!searched && n >= first_check && n < B && lr.chance(0.5))
                {
                    g.pos = p;
                    s.ops.push_back(send("go depth " + std::to_string(lr.range(2, 5))));
                    s.ops.push_back(simple(OP_AWAIT_BEST));
                    searched = true;
                }
            }
        }
        if (s.ops.empty())
        {
            s.ops.push_back(send(p.command()));
            s.ops.push_back(simple(OP_AWAIT_IDLE));
            s.ops.push_back(simple(OP_CHECK, "c07"));
        }
        return s;
    }
    // a long game, checked along the way; shuffling phases to reach repetitions and high clocks
    PosSpec p;
    uint64_t src = r.below(13);
    bool corner_promo = src == 12;
    if (corner_promo)
    {
        static const char* cr[] = {"r3k2r/1P4P1/8/8/8/8/1p4p1/R3K2R w KQkq - 0 1", "r3k2r/1P4P1/8/8/8/8/1p4p1/R3K2R b KQkq - 0 1", "r3k2r/1P4P1/2n2n2/8/8/2N2N2/1p4p1/R3K2R w KQkq - 4 20",
                                   "r3k2r/1P4P1/2n2n2/8/8/2N2N2/1p4p1/R3K2R b KQkq - 4 20"};
        p.start_fen = cr[r.below(4)];
    }
    else if (src < 6) p.start_fen.clear();
    else if (src < 8) p.start_fen = curated_fens()[r.below(curated_fens().size())];
    else if (src < 9) p.start_fen = gen_sparse_fen(r, 1, 6, true);
    else if (src < 10) p.start_fen = gen_evasion_family(r).start_fen;
    else
    {
        // castling still possible, clock already running: castle, then shuffle towards the 50-move limit
        static const char* castle_ready[] = {"r3k2r/pppq1ppp/2npbn2/2b1p3/2B1P3/2NPBN2/PPPQ1PPP/R3K2R w KQkq - %d 12", "r3k2r/8/8/8/8/8/8/R3K2R w KQkq - %d 40",
                                             "r3k2r/pppppppp/8/8/8/8/PPPPPPPP/R3K2R b KQkq - %d 30", "4k2r/8/8/8/8/8/8/R3K3 w Qk - %d 50"};
        char buf[128];
        snprintf(buf, sizeof buf, castle_ready[r.below(4)], int(r.range(0, 97)));
        p.start_fen = buf;
    }
    p.game = ref::Game(p.start_fen.empty() ? ref::Board() : ref::Board(p.start_fen));
    if (corner_promo)
    {
        // a pawn captures an unmoved corner rook while promoting (the owner loses that castling right)
        int n = int(r.range(1, 2));
        for (int i = 0; i < n; ++i)
        {
            auto ms = p.game.cur.legal();
            std::vector<ref::RMove> pc;
            for (auto& m : ms)
                if (m.promo && ref::kind_of(p.game.cur.sq[m.to]) == ref::KIND_R && (m.to == 0 || m.to == 7 || m.to == 56 || m.to == 63)) pc.push_back(m);
            if (pc.empty()) { playout(p.game, r, 1, 0.0); continue; }
            p.game.push(pc[r.below(pc.size())]);
        }
    }
    else if (src >= 10)
    {
        // try to castle within the first plies
        for (int i = 0; i < 4; ++i)
        {
            auto ms = p.game.cur.legal();
            bool done = false;
            for (auto& m : ms)
                if (ref::kind_of(p.game.cur.sq[m.from]) == ref::KIND_K && std::abs(ref::file_of(m.to) - ref::file_of(m.from)) == 2 && r.chance(0.8))
                {
                    p.game.push(m);
                    done = true;
                    break;
                }
            if (!done) playout(p.game, r, 1, 0.0);
        }
    }
    int total = int(r.logrange(4, 600));
    int checks = 0;
    while (int(p.game.moves.size()) < total && checks < 40)
    {
        int chunk = int(r.logrange(1, 150));
        // phases: normal play, or quiet shuffling (no captures / pawn moves) to drive the clock and repetitions
        if (r.chance(0.5))
        {
            for (int i = 0; i < chunk; ++i)
            {
                auto ms = p.game.cur.legal();
                std::vector<ref::RMove> quiet;
                for (auto& m : ms)
                    if (!p.game.cur.is_capture(m) && ref::kind_of(p.game.cur.sq[m.from]) != ref::KIND_P)
                    {
                        ref::Undo u = p.game.cur.make(m);
                        bool term = p.game.cur.legal().empty();
                        p.game.cur.unmake(m, u);
                        if (!term) quiet.push_back(m);
                    }
                if (quiet.empty()) break;
                // prefer undoing the move made two plies ago (creates repetitions)
                ref::RMove pick = quiet[r.below(quiet.size())];
                if (p.game.moves.size() >= 2 && r.chance(0.6))
                {
                    ref::RMove back = p.game.moves[p.game.moves.size() - 2];
                    std::swap(back.from, back.to);
                    for (auto& m : quiet)
                        if (m == back) pick = m;
                }
                p.game.push(pick);
            }
        }
        else
            playout(p.game, r, chunk, 0.3);
        if (p.game.cur.legal().empty()) break;
        if (p.game.cur.halfmove > 150) break;
        s.ops.push_back(send(p.command()));
        s.ops.push_back(simple(OP_AWAIT_IDLE));
        s.ops.push_back(simple(OP_CHECK, "c07"));
        checks++;
        if (r.chance(0.25))
        {
            g.pos = p;
            s.ops.push_back(send("go depth " + std::to_string(r.range(1, 5))));
            s.ops.push_back(simple(OP_AWAIT_BEST));
        }
    }
    if (s.ops.empty())
    {
        s.ops.push_back(send(p.command()));
        s.ops.push_back(simple(OP_AWAIT_IDLE));
        s.ops.push_back(simple(OP_CHECK, "c07"));
    }
    return s;
}

// --------------------------------------------------------------- C08 ------
Script gen_c08(uint64_t seed, const std::string& tier, Rng& r)
{
    (void)tier;
    Script s;
    s.cfg.run_seed = seed;
    Gen g(r, s);
    g.common_cfg("C08");
    s.cfg.node_cap = 150000;
    if (r.chance(0.3)) s.cfg.zobrist_mode = 3;
    int rounds = int(r.range(1, 3));
    if (r.chance(0.25))
    {
        // many tiny endgames searched deep: zugzwang, null-move and mating-net effects need depth, and each search is cheap
        int n = int(r.range(5, 10));
        for (int i = 0; i < n; ++i)
        {
            PosSpec p;
            p.start_fen = r.chance(0.7) ? gen_corner_zugzwang_fen(r) : gen_sparse_fen(r, 1, 2, true);
            p.game = ref::Game(ref::Board(p.start_fen));
            g.set_position(p, i == 0);
            s.ops.push_back(send("go depth " + std::to_string(r.range(6, 9))));
            s.ops.push_back(simple(OP_AWAIT_BEST));
        }
        return s;
    }
    for (int i = 0; i < rounds; ++i)
    {
        PosSpec p;
        uint64_t k = r.below(100);
        bool deep_sparse = false;
        if (r.chance(0.12))
        {
            // rich tactical positions (many pieces attacking each other): mate threats everywhere, pruning decisions matter
            if (r.chance(0.6)) p.start_fen = gen_melee_fen(r);
            else
            {
                PosSpec q = gen_position(r, 60, 2);
                playout(q.game, r, int(r.range(2, 12)), 0.9);
                p.start_fen = q.game.cur.fen();
            }
            p.game = ref::Game(ref::Board(p.start_fen));
            if (!p.game.cur.legal().empty())
            {
                g.set_position(p);
                s.ops.push_back(send("go depth " + std::to_string(r.range(3, 6))));
                s.ops.push_back(simple(OP_AWAIT_BEST));
                continue;
            }
        }
        if (k < 20) p.start_fen = mate_fens()[r.below(mate_fens().size())];
        else if (k < 32) p.start_fen = quiet_sparse_fens()[r.below(quiet_sparse_fens().size())];
        else if (k < 45) p = gen_evasion_family(r);
        else if (k < 52) { p.start_fen = gen_sparse_fen(r, 1, 3, true); deep_sparse = true; }
        else if (k < 62) { p.start_fen = gen_corner_zugzwang_fen(r); deep_sparse = true; }
        else if (k < 85) p.start_fen = gen_sparse_fen(r, 1, 5, true);
        else p.start_fen = curated_fens()[r.below(curated_fens().size())];
        if (!(k >= 32 && k < 45)) p.game = ref::Game(ref::Board(p.start_fen));
        if ((k >= 45 || (k >= 20 && k < 32)) && r.chance(0.5)) playout(p.game, r, int(r.logrange(1, 200)), 0.2);
        g.set_position(p);
        if (deep_sparse)
        {
            // few men: deep iterations are cheap; zugzwang and null-move effects need depth
            s.ops.push_back(send("go depth " + std::to_string(r.range(6, 10))));
            s.ops.push_back(simple(OP_AWAIT_BEST));
            if (r.chance(0.5))
            {
                s.ops.push_back(send(p.command()));
                s.ops.push_back(send("go depth " + std::to_string(r.range(7, 11))));
                s.ops.push_back(simple(OP_AWAIT_BEST));
            }
            continue;
        }
        if (r.chance(0.35))
        {
            // an interrupted search (node budget, early stop or time expiry) leaves whatever it stored on the way out;
            // complete searches of the same position at growing depth then meet those entries
            uint64_t how = r.below(3);
            if (how == 0)
            {
                s.ops.push_back(send("go nodes " + std::to_string(r.logrange(1, 3000))));
                Fault x;
                x.kind = F_POLL_PHASE;
                x.a = r.logrange(1, 3000);
                s.ops.back().faults.push_back(x);
            }
            else if (how == 1)
            {
                s.ops.push_back(send("go depth " + std::to_string(r.range(3, 8))));
                Op st = send("stop");
                st.trig = TRIG_POINT;
                st.point = PT_NODE;
                st.k = r.logrange(1, 5000);
                st.hold = r.chance(0.5);
                s.ops.push_back(st);
            }
            else
            {
                s.ops.push_back(send("go movetime 1"));
                Fault x;
                x.kind = F_POLL_PHASE;
                x.a = r.logrange(1, 3000);
                s.ops.back().faults.push_back(x);
            }
            s.ops.push_back(simple(OP_AWAIT_BEST));
            int upto = int(r.range(2, 6));
            for (int d = 1; d <= upto; ++d)
            {
                if (r.chance(0.8)) s.ops.push_back(send(p.command()));
                s.ops.push_back(send("go depth " + std::to_string(d)));
                s.ops.push_back(simple(OP_AWAIT_BEST));
            }
            continue;
        }
        if (r.chance(0.2))
        {
            // a restricted search first, then an unrestricted one of the same position (with and without a position command between)
            s.ops.push_back(send("go depth " + std::to_string(r.range(1, 5)) + g.searchmoves_clause(0.5)));
            s.ops.push_back(simple(OP_AWAIT_BEST));
            if (r.chance(0.5)) s.ops.push_back(send(p.command()));
            s.ops.push_back(send("go depth " + std::to_string(r.range(1, 5))));
            s.ops.push_back(simple(OP_AWAIT_BEST));
            continue;
        }
        // search, move on a ply or two, search, come back at another depth
        int d1 = int(r.range(1, 6));
        s.ops.push_back(send("go depth " + std::to_string(d1)));
        s.ops.push_back(simple(OP_AWAIT_BEST));
        if (r.chance(0.6))
        {
            PosSpec q = p;
            playout(q.game, r, int(r.range(1, 2)), 0.5);
            if (!q.game.cur.legal().empty())
            {
                s.ops.push_back(send(q.command()));
                s.ops.push_back(send("go depth " + std::to_string(r.range(1, 5))));
                s.ops.push_back(simple(OP_AWAIT_BEST));
            }
            if (r.chance(0.3)) s.ops.push_back(send("ucinewgame"));
            s.ops.push_back(send(p.command()));
            Op goop = send("go depth " + std::to_string(r.range(1, 6)));
            s.ops.push_back(goop);
            if (r.chance(0.15)) s.ops.push_back(g.windowed("stop", 4, false));
            s.ops.push_back(simple(OP_AWAIT_BEST));
        }
    }
    return s;
}

// --------------------------------------------------------------- C14 ------
Script gen_c14(uint64_t seed, const std::string& tier, Rng& r)
{
    (void)tier;
    Script s;
    s.cfg.run_seed = seed;
    Gen g(r, s);
    g.common_cfg("C14");
    s.cfg.node_cap = 30000;
    s.cfg.zobrist_mode = r.chance(0.5) ? 1 : 0;
    std::vector<std::string> seen;  // positions evaluated earlier in the session (revisits)
    auto probe_list = [&](int n) {
        std::string l;
        for (int i = 0; i < n; ++i)
        {
            std::string fen;
            uint64_t k = r.below(10);
            if (k < 1) fen = gen_heavy_fen(r);                // lone king against up to nine queens and all officers
            else if (k < 2) fen = gen_sparse_fen(r, 0, 6, false);  // pawnless
            else if (k < 4) fen = gen_endgame_class_fen(r);   // every specialised endgame class, both colours, both sides to move
            else if (k < 5 && !seen.empty())
            {
                fen = seen[r.below(seen.size())];
                // the same placement with a few men removed or the side to move flipped: shares evaluator state with its original
                if (r.chance(0.5))
                {
                    ref::Board b(fen);
                    for (int t = 0; t < 3; ++t)
                    {
                        int q = int(r.below(64));
                        int kd = ref::kind_of(b.sq[q]);
                        if (kd && kd != ref::KIND_K && r.chance(0.7)) b.sq[q] = 0;
                    }
                    if (r.chance(0.3)) { b.side = 1 - b.side; b.ep = -1; }
                    b.castling = 0;
                    b.ep = -1;
                    std::string f2 = b.fen();
                    if (fen_is_sane(f2) && !ref::Board(f2).legal().empty()) fen = f2;
                }
            }
            else if (k < 7) fen = gen_sparse_fen(r, 1, 7, true);
            else if (k < 8) fen = curated_fens()[r.below(curated_fens().size())];
            else
            {
                PosSpec p = gen_position(r, 100, 0);
                fen = p.game.cur.fen();
            }
            seen.push_back(fen);
            if (!l.empty()) l += "|";
            l += fen;
        }
        return l;
    };
    int steps = int(r.range(2, 8));
    for (int i = 0; i < steps; ++i)
    {
        uint64_t k = r.below(10);
        if (k < 3)
        {
            g.set_position(gen_position(r, 100, 0), false);
            s.ops.push_back(send("go depth " + std::to_string(r.range(1, 5))));
            s.ops.push_back(simple(OP_AWAIT_BEST));
        }
        else if (k < 6)
        {
            s.ops.push_back(simple(OP_AWAIT_IDLE));
            s.ops.push_back(simple(OP_CHECK, "c14eval " + probe_list(int(r.range(1, 12)))));
        }
        else if (k < 8)
        {
            s.ops.push_back(send("ucinewgame"));
            s.ops.push_back(simple(OP_AWAIT_IDLE));
        }
        s.ops.push_back(simple(OP_AWAIT_IDLE));
        s.ops.push_back(simple(OP_CHECK, "c14probe " + probe_list(int(r.range(2, 10)))));
    }
    return s;
}

// --------------------------------------------------------------- C10 ------
Script gen_c10(uint64_t seed, const std::string& tier, Rng& r)
{
    (void)tier;
    Script s;
    s.cfg.run_seed = seed;
    Gen g(r, s);
    g.common_cfg("C10");
    s.cfg.node_cap = 60000;
    if (r.chance(0.05))
    {
        exit_during_search(s, g, r);
        return s;
    }
    if (r.chance(0.05))
    {
        // a book whose key holds many records, most of them with the same weight
        int n = int(r.range(1, 3));
        for (int i = 0; i < n; ++i)
        {
            g.set_position(gen_position(r, 40, 0));
            g.load_book_for_current(r.chance(0.5), true);
            int gos = int(r.range(1, 3));
            for (int k = 0; k < gos; ++k)
            {
                s.ops.push_back(send("go depth " + std::to_string(r.range(1, 3))));
                s.ops.push_back(simple(OP_AWAIT_BEST));
            }
        }
        return s;
    }
    uint64_t shape = r.below(100);
    if (shape < 27)
    {
        // long games replayed through `position startpos moves ...`, then searched
        PosSpec p;
        p.game = ref::Game(ref::Board());
        int target = int(r.chance(0.5) ? r.range(700, 1000) : r.logrange(50, 1000));
        // knights shuffle keeps the game alive for as long as needed
        while (int(p.game.moves.size()) < target)
        {
            int before = int(p.game.moves.size());
            playout(p.game, r, std::min(50, target - before), 0.05);
            if (int(p.game.moves.size()) == before) break;
        }
        g.set_position(p);
        if (r.chance(0.8))
        {
            s.ops.push_back(send(g.bounded_go(6, true, false)));
            s.ops.push_back(simple(OP_AWAIT_BEST));
        }
    }
    else if (shape < 44)
    {
        static const char* tiny[] = {"8/8/4k3/8/8/3K4/8/8 w - - 0 1", "8/8/4k3/8/8/3K1N2/8/8 w - - 0 1", "k7/8/1K6/8/8/8/8/7Q w - - 0 1",
                                     "8/8/8/4k3/8/4K3/4P3/8 w - - 0 1"};
        PosSpec p;
        p.start_fen = tiny[r.below(4)];
        p.game = ref::Game(ref::Board(p.start_fen));
        g.set_position(p);
        if (r.chance(0.5))
        {
            s.ops.push_back(send("go depth " + std::to_string(r.range(38, 100))));
            s.ops.push_back(simple(OP_AWAIT_BEST));
        }
        else
        {
            // an unbounded search that is left alone for more iterations than the engine's per-depth arrays hold
            s.ops.push_back(send(r.chance(0.5) ? "go infinite" : "go movetime 10000000"));
            Op st = send("stop");
            st.trig = TRIG_POINT;
            st.point = PT_ITER_DONE;
            st.k = r.range(39, 90);
            s.ops.push_back(st);
            s.ops.push_back(simple(OP_AWAIT_BEST));
        }
    }
    else if (shape < 50)
    {
        // the evaluator on every specialised endgame class and on extreme material, through the UCI `staticeval` command
        int n = int(r.range(30, 80));
        for (int i = 0; i < n; ++i)
        {
            std::string fen = r.chance(0.75) ? gen_endgame_class_fen(r) : (r.chance(0.5) ? gen_heavy_fen(r) : gen_sparse_fen(r, 0, 7, true));
            s.ops.push_back(send("position fen " + fen));
            s.ops.push_back(send("staticeval"));
        }
        s.ops.push_back(simple(OP_AWAIT_IDLE));
    }
    else if (shape < 53)
    {
        // clock-managed searches at the far end of the time manager's inputs: very high move numbers, long games, large movestogo
        PosSpec p;
        if (r.chance(0.5))
        {
            ref::Board b(gen_sparse_fen(r, 1, 6, true));
            b.fullmove = int(r.chance(0.5) ? r.range(300, 1200) : r.logrange(100, 5000));
            p.start_fen = b.fen();
            p.game = ref::Game(ref::Board(p.start_fen));
        }
        else
        {
            p.game = ref::Game(ref::Board());
            int target = int(r.range(400, 760));
            while (int(p.game.moves.size()) < target)
            {
                int before = int(p.game.moves.size());
                playout(p.game, r, std::min(50, target - before), 0.05);
                if (int(p.game.moves.size()) == before) break;
            }
        }
        g.set_position(p);
        std::string go = "go wtime " + std::to_string(r.logrange(1, 20 * g.tmax_ms)) + " btime " + std::to_string(r.logrange(1, 20 * g.tmax_ms));
        if (r.chance(0.5)) go += " winc " + std::to_string(r.below(uint64_t(g.tmax_ms) + 1)) + " binc " + std::to_string(r.below(uint64_t(g.tmax_ms) + 1));
        go += " movestogo " + std::to_string(r.chance(0.5) ? r.range(40, 300) : r.range(1, 60));
        s.ops.push_back(send(go));
        s.ops.push_back(simple(OP_AWAIT_BEST));
    }
    else if (shape < 58)
    {
        // a node with >= 64 legal moves searched deep enough for late-move logic, every subtree cheap
        PosSpec p;
        p.start_fen = gen_wide_fen(r);
        p.game = ref::Game(ref::Board(p.start_fen));
        g.set_position(p);
        s.cfg.node_cap = 400000;
        s.ops.push_back(send("go depth " + std::to_string(r.range(4, 5))));
        s.ops.push_back(simple(OP_AWAIT_BEST));
    }
    else if (shape < 70)
    {
        static const char* big[] = {"R6R/3Q4/1Q4Q1/4Q3/2Q4Q/Q4Q2/pp1Q4/kBNN1KB1 w - - 0 1", "QQQQQQQQ/Q7/8/8/8/8/7k/K7 w - - 0 1",
                                    "NNNNNNNN/NN6/8/8/8/8/5k2/K7 w - - 0 1", "nnnnnnnn/nn6/8/8/8/8/5K2/k7 b - - 0 1",
                                    "k7/8/1r1q1r1q/b1q1n1q1/1Q1N1Q1B/Q1R1Q1R1/8/7K w - - 0 1"};
        PosSpec p;
        p.start_fen = big[r.below(5)];
        p.game = ref::Game(ref::Board(p.start_fen));
        if (!fen_is_sane(p.start_fen)) p.start_fen = "R6R/3Q4/1Q4Q1/4Q3/2Q4Q/Q4Q2/pp1Q4/kBNN1KB1 w - - 0 1", p.game = ref::Game(ref::Board(p.start_fen));
        g.set_position(p);
        std::string go = "go depth " + std::to_string(r.range(1, 4));
        if (r.chance(0.5))
        {
            go += " searchmoves";
            for (auto& m : p.game.cur.legal()) go += " " + m.uci();
        }
        s.ops.push_back(send(go));
        s.ops.push_back(simple(OP_AWAIT_BEST));
    }
    else
    {
        Script t = gen_session(seed, "C10", r, 6, true, 6, 0);
        t.cfg.node_cap = 60000;
        return t;
    }
    return s;
}

}  // namespace

Script generate_script(const std::string& prop, uint64_t run_seed, const std::string& tier)
{
    Rng r(mix64(run_seed, 0x9E4));
    if (prop == "C06") return gen_c06(run_seed, tier, r);
    if (prop == "C05") return gen_session(run_seed, "C05", r, 8, true, 7, 0);
    if (prop == "C09") return gen_c09(run_seed, tier, r);
    if (prop == "C03" || prop == "C04") return gen_c03_c04(run_seed, prop, r);
    if (prop == "C07") return gen_c07(run_seed, tier, r);
    if (prop == "C08") return gen_c08(run_seed, tier, r);
    if (prop == "C14") return gen_c14(run_seed, tier, r);
    if (prop == "C10") return gen_c10(run_seed, tier, r);
    if (prop == "C19") return gen_book_script(run_seed, tier, r);
    Script s;
    s.cfg.prop = prop;
    s.cfg.run_seed = run_seed;
    return s;
}

}  // namespace sim
