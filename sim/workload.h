// Position / game workload built on the reference model (never on engine code).
#ifndef VERIF_WORKLOAD_H_
#define VERIF_WORKLOAD_H_

#include <string>
#include <vector>

#include "refmodel.h"
#include "rng.h"

namespace sim
{
struct PosSpec
{
    std::string start_fen;  // empty = startpos
    ref::Game game;         // start + moves
    std::string command() const
    {
        std::string c = start_fen.empty() ? "position startpos" : "position fen " + start_fen;
        if (!game.moves.empty()) c += " moves " + game.moves_str();
        return c;
    }
};

const std::vector<std::string>& curated_fens();
const std::vector<std::string>& mate_fens();      // positions with a short forced mate (validated by the solver at start-up)
const std::vector<std::string>& quiet_sparse_fens();

// random legal continuation; bias in [0,1]: probability of preferring captures/checks/castling/promotions
void playout(ref::Game& g, Rng& r, int plies, double bias, bool avoid_terminal = true);

// a position with >= 1 legal move
PosSpec gen_position(Rng& r, int max_plies, int source_mix);

// random sparse legal position (2 kings + n extra men)
std::string gen_sparse_fen(Rng& r, int extra_min, int extra_max, bool allow_pawns);

bool fen_is_sane(const std::string& fen);
std::string gen_heavy_fen(Rng& r);
std::string gen_endgame_class_fen(Rng& r);
std::string gen_melee_fen(Rng& r);
PosSpec gen_evasion_family(Rng& r);
std::string gen_corner_zugzwang_fen(Rng& r);
std::string gen_wide_fen(Rng& r);
PosSpec gen_castle_lookalike(Rng& r);
PosSpec gen_double_check_family(Rng& r);
std::string gen_castle_enemy_on_b_file_fen(Rng& r);

}  // namespace sim
#endif
