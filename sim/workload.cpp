#include "workload.h"

#include <algorithm>

namespace sim
{
bool fen_is_sane(const std::string& fen)
{
    ref::Board b;
    if (!b.set_fen(fen)) return false;
    int wk = 0, bk = 0, cnt[13] = {0};
    for (int s = 0; s < 64; ++s)
    {
        int8_t p = b.sq[s];
        if (!p) continue;
        cnt[p]++;
        if (p == ref::WK) wk++;
        if (p == ref::BK) bk++;
        if ((p == ref::WP || p == ref::BP) && (ref::rank_of(s) == 0 || ref::rank_of(s) == 7)) return false;
    }
    if (wk != 1 || bk != 1) return false;
    for (int p = 1; p <= 12; ++p)
        if (cnt[p] > 10) return false;
    if (cnt[ref::WP] > 8 || cnt[ref::BP] > 8) return false;
    if (b.in_check(1 - b.side)) return false;
    // castling rights consistent
    if ((b.castling & 1) && !(b.sq[4] == ref::WK && b.sq[7] == ref::WR)) return false;
    if ((b.castling & 2) && !(b.sq[4] == ref::WK && b.sq[0] == ref::WR)) return false;
    if ((b.castling & 4) && !(b.sq[60] == ref::BK && b.sq[63] == ref::BR)) return false;
    if ((b.castling & 8) && !(b.sq[60] == ref::BK && b.sq[56] == ref::BR)) return false;
    if (b.ep >= 0)
    {
        // ep square consistent with a double push just made
        int r = ref::rank_of(b.ep), f = ref::file_of(b.ep);
        if (b.side == 0)
        {
            if (r != 5 || b.sq[ref::sq_of(f, 4)] != ref::BP || b.sq[b.ep] || b.sq[ref::sq_of(f, 6)]) return false;
        }
        else
        {
            if (r != 2 || b.sq[ref::sq_of(f, 3)] != ref::WP || b.sq[b.ep] || b.sq[ref::sq_of(f, 1)]) return false;
        }
    }
    return true;
}

static std::vector<std::string> filter_sane(std::initializer_list<const char*> l)
{
    std::vector<std::string> out;
    for (const char* f : l)
    {
        if (!fen_is_sane(f)) continue;
        ref::Board b(f);
        if (b.legal().empty()) continue;
        out.push_back(f);
    }
    return out;
}

const std::vector<std::string>& curated_fens()
{
    static const std::vector<std::string> v = filter_sane({
        // classic perft / tactical positions
        "r3k2r/p1ppqpb1/bn2pnp1/3PN3/1p2P3/2N2Q1p/PPPBBPPP/R3K2R w KQkq - 0 1",
        "8/2p5/3p4/KP5r/1R3p1k/8/4P1P1/8 w - - 0 1",
        "r3k2r/Pppp1ppp/1b3nbN/nP6/BBP1P3/q4N2/Pp1P2PP/R2Q1RK1 w kq - 0 1",
        "rnbq1k1r/pp1Pbppp/2p5/8/2B5/8/PPP1NnPP/RNBQK2R w KQ - 1 8",
        "r4rk1/1pp1qppp/p1np1n2/2b1p1B1/2B1P1b1/P1NP1N2/1PP1QPPP/R4RK1 w - - 0 10",
        "r1bqkbnr/pppp1ppp/2n5/4p3/4P3/5N2/PPPP1PPP/RNBQKB1R w KQkq - 2 3",
        "r1bq1rk1/pp2ppbp/2np1np1/8/3NP3/2N1BP2/PPPQ2PP/R3KB1R w KQ - 3 9",
        "2rq1rk1/pb2bppp/1p2pn2/n2p4/3P4/P1NBPN2/1PQ2PPP/R1B2RK1 w - - 0 13",
        "r2q1rk1/ppp2ppp/2n1bn2/2b1p3/3pP3/3P1NPP/PPP1NPB1/R1BQ1RK1 b - - 0 9",
        "rnbqkb1r/pp1p1ppp/4pn2/2p5/2PP4/5N2/PP2PPPP/RNBQKB1R w KQkq c6 0 4",
        "r3k2r/8/8/8/8/8/8/R3K2R w KQkq - 5 10",
        "r3k2r/pppppppp/8/8/8/8/PPPPPPPP/R3K2R b KQkq - 0 1",
        // queen-heavy quiescence explosion
        "k7/8/1r1q1r1q/b1q1n1q1/1Q1N1Q1B/Q1R1Q1R1/8/7K w - - 0 1",
        "k7/8/1r1q1r1q/b1q1n1q1/1Q1N1Q1B/Q1R1Q1R1/8/7K b - - 0 1",
        // 218 legal moves
        "R6R/3Q4/1Q4Q1/4Q3/2Q4Q/Q4Q2/pp1Q4/kBNN1KB1 w - - 0 1",
        // many queens / knights of one colour
        "QQQQQQQQ/Q7/8/8/8/8/7k/K7 w - - 0 1",
        "NNNNNNNN/NN6/8/8/8/8/5k2/K7 w - - 0 1",
        "nnnnnnnn/nn6/8/8/8/8/5K2/k7 b - - 0 1",
        // promotions, en passant
        "8/P1k5/8/8/8/8/5Kp1/8 w - - 0 1",
        "4k3/1P6/8/8/8/8/6p1/4K2R b K - 0 1",
        "8/8/8/2k5/3Pp3/8/8/4K3 b - d3 0 1",
        "8/6b1/8/4Pp2/8/2K5/8/7k w - f6 0 1",
        "8/8/8/K2pP2r/8/8/8/7k w - d6 0 1",
        // endgames: KPK, KBNK, KQK, KRK, KQKR, KRKP, KBPK wrong bishop, KNNK, KQKP
        "8/8/8/4k3/8/4K3/4P3/8 w - - 0 1",
        "8/8/8/K7/8/k7/P7/8 w - - 0 1",
        "8/5K2/2k1P3/8/8/8/8/8 w - - 0 1",
        "8/8/8/8/8/2k5/8/KBN5 w - - 0 1",
        "8/8/8/4k3/8/8/8/KQ6 w - - 0 1",
        "8/8/8/4k3/8/8/8/KR6 w - - 0 1",
        "8/8/8/4k3/4r3/8/8/KQ6 w - - 0 1",
        "8/8/8/8/4k3/4p3/8/K6R w - - 0 1",
        "7k/8/8/8/8/8/P7/KB6 w - - 0 1",
        "8/8/8/4k3/8/8/8/KNN5 w - - 0 1",
        "8/8/8/8/8/1k6/2p5/K2Q4 w - - 0 1",
        "8/4k3/p7/P7/PP4KN/8/8/8 w - - 0 1",
        "8/7K/p7/P7/8/8/kB6/8 w - - 3 126",
        // bare kings, single minor
        "8/8/4k3/8/8/3K4/8/8 w - - 0 1",
        "8/8/4k3/8/8/3K1N2/8/8 w - - 0 1",
        "8/8/4k3/8/5b2/3K4/8/8 b - - 0 1",
        // in check, few evasions
        "4k3/8/8/8/8/8/4q3/4K3 w - - 0 1",
        "r3k2r/p1pp1pb1/bn2Qnp1/2qPN3/1p2P3/2N5/PPPBBPPP/R3K2R b KQkq - 3 2",
        "2kr3r/p1ppqpb1/bn2Qnp1/3PN3/1p2P3/2N5/PPPBBPPP/R3K2R b KQ - 3 2",
        // high half-move clocks
        "8/8/4k3/8/8/3K4/R7/8 w - - 98 120",
        "6k1/5ppp/8/8/8/8/8/R3K3 w Q - 99 80",
        "6k1/5ppp/8/8/8/8/8/R3K3 w Q - 98 80",
        "r1bqkb1r/pppp1ppp/2n2n2/4p2Q/2B1P3/8/PPPP1PPP/RNB1K1NR w KQkq - 4 4",
        // pawns that can capture an unmoved corner rook while promoting
        "r3k2r/1P4P1/8/8/8/8/1p4p1/R3K2R w KQkq - 0 1",
        "r3k2r/1P4P1/8/8/8/8/1p4p1/R3K2R b KQkq - 0 1",
        "r3k2r/1P4P1/2n2n2/8/8/2N2N2/1p4p1/R3K2R w KQkq - 4 20",
        // castling is clearly the best move (it wins material or mates)
        "8/3k4/8/8/8/8/1r6/R3K3 w Q - 0 1",
        "r3k3/1R6/8/8/8/8/3K4/8 b q - 0 1",
        "8/8/8/8/8/8/6rk/4K2R w K - 0 1",
        "4k2r/6RK/8/8/8/8/8/8 b k - 0 1",
        "5k2/8/8/8/8/8/1r1P1PPP/R3K2R w KQ - 0 1",
        "r3k2r/1R1p1ppp/8/8/8/8/8/5K2 b kq - 0 1",
    });
    return v;
}

const std::vector<std::string>& quiet_sparse_fens()
{
    static const std::vector<std::string> v = filter_sane({
        "8/4k3/p7/P7/PP4KN/8/8/8 w - - 0 1",
        "8/7K/p7/P7/8/8/kB6/8 w - - 3 126",
        "8/8/p7/P3k3/8/1B6/8/6K1 w - - 0 1",
        "8/2k5/p7/P7/8/8/1N4K1/8 w - - 0 1",
        "8/8/1p6/1P2k3/8/8/B5K1/8 b - - 0 1",
        "6k1/8/p7/P7/8/8/1n6/K7 b - - 10 60",
    });
    return v;
}

std::string gen_sparse_fen(Rng& r, int extra_min, int extra_max, bool allow_pawns)
{
    for (int attempt = 0; attempt < 200; ++attempt)
    {
        ref::Board b;
        std::memset(b.sq, 0, sizeof b.sq);
        b.castling = 0;
        b.ep = -1;
        b.side = int(r.below(2));
        b.halfmove = r.chance(0.15) ? int(r.range(90, 99)) : int(r.below(20));
        b.fullmove = int(r.range(1, 90));
        int wk = int(r.below(64)), bk = int(r.below(64));
        if (wk == bk) continue;
        b.sq[wk] = ref::WK;
        b.sq[bk] = ref::BK;
        int n = int(r.range(extra_min, extra_max));
        bool ok = true;
        for (int i = 0; i < n && ok; ++i)
        {
            int s = int(r.below(64));
            if (b.sq[s]) { --i; if (r.chance(0.02)) ok = false; continue; }
            static const int kinds_np[] = {ref::KIND_N, ref::KIND_B, ref::KIND_R, ref::KIND_Q, ref::KIND_R, ref::KIND_Q};
            int kind;
            if (allow_pawns && r.chance(0.4)) kind = ref::KIND_P;
            else kind = kinds_np[r.below(6)];
            if (kind == ref::KIND_P && (ref::rank_of(s) == 0 || ref::rank_of(s) == 7)) { --i; continue; }
            int color = r.chance(0.65) ? b.side : 1 - b.side;  // the mover is usually the stronger side
            b.sq[s] = ref::mk(color, kind);
        }
        if (!ok) continue;
        std::string fen = b.fen();
        if (!fen_is_sane(fen)) continue;
        if (b.legal().empty()) continue;
        return fen;
    }
    return "8/8/4k3/8/8/3K4/R7/8 w - - 0 1";
}

// lone (or nearly lone) king against everything a side can own after eight promotions
std::string gen_heavy_fen(Rng& r)
{
    for (int attempt = 0; attempt < 200; ++attempt)
    {
        ref::Board b;
        std::memset(b.sq, 0, sizeof b.sq);
        b.castling = 0;
        b.ep = -1;
        b.side = int(r.below(2));
        b.halfmove = int(r.below(30));
        b.fullmove = int(r.range(40, 120));
        int strong = int(r.below(2));
        int promoted = int(r.range(3, 8));
        int q = 1, rk = 2, bi = 2, kn = 2;
        for (int i = 0; i < promoted; ++i)
        {
            uint64_t k = r.below(10);
            if (k < 7) q++;
            else if (k < 8) rk++;
            else if (k < 9) bi++;
            else kn++;
        }
        // sometimes some of the original officers are gone
        if (r.chance(0.3)) rk -= int(r.below(3));
        if (r.chance(0.3)) bi -= int(r.below(3));
        if (r.chance(0.3)) kn -= int(r.below(3));
        auto place = [&](int8_t pc) {
            for (int t = 0; t < 100; ++t)
            {
                int s = int(r.below(64));
                if (!b.sq[s]) { b.sq[s] = pc; return; }
            }
        };
        place(ref::mk(strong, ref::KIND_K));
        place(ref::mk(1 - strong, ref::KIND_K));
        for (int i = 0; i < q; ++i) place(ref::mk(strong, ref::KIND_Q));
        for (int i = 0; i < rk; ++i) place(ref::mk(strong, ref::KIND_R));
        for (int i = 0; i < bi; ++i) place(ref::mk(strong, ref::KIND_B));
        for (int i = 0; i < kn; ++i) place(ref::mk(strong, ref::KIND_N));
        if (r.chance(0.25)) place(ref::mk(1 - strong, int(r.range(ref::KIND_N, ref::KIND_Q))));
        std::string fen = b.fen();
        if (!fen_is_sane(fen)) continue;
        if (b.legal().empty()) continue;
        return fen;
    }
    return "k7/8/8/8/7K/8/2QQQ3/1QQQQQQ1 w - - 0 1";
}

// one random position of a specialised endgame class (material signature), either colour strong, either side to move
std::string gen_endgame_class_fen(Rng& r)
{
    static const char* sig[][2] = {
        {"P", ""},   {"PP", ""},  {"PPP", ""}, {"Q", ""},   {"R", ""},   {"QR", ""},  {"BB", ""},  {"NB", ""},  {"NN", ""},  {"NN", "P"},
        {"BP", ""},  {"BPP", ""}, {"BP", "B"}, {"BPP", "B"}, {"BPPP", "B"}, {"Q", "P"},  {"Q", "R"},  {"Q", "RP"}, {"Q", "RPP"}, {"RB", "R"},
        {"RN", "R"}, {"R", "B"},  {"R", "N"},  {"R", "P"},  {"BN", "N"}, {"BB", "N"}, {"NN", "B"}, {"BN", "B"}, {"RP", "R"}, {"QP", "Q"},
    };
    const int nsig = int(sizeof sig / sizeof sig[0]);
    for (int attempt = 0; attempt < 300; ++attempt)
    {
        ref::Board b;
        std::memset(b.sq, 0, sizeof b.sq);
        b.castling = 0;
        b.ep = -1;
        b.side = int(r.below(2));
        b.halfmove = int(r.below(40));
        b.fullmove = int(r.range(30, 120));
        int strong = int(r.below(2));
        auto& s = sig[r.below(uint64_t(nsig))];
        bool ok = true;
        auto place = [&](int color, char c) {
            int kind = c == 'P' ? ref::KIND_P : c == 'N' ? ref::KIND_N : c == 'B' ? ref::KIND_B : c == 'R' ? ref::KIND_R : c == 'Q' ? ref::KIND_Q : ref::KIND_K;
            for (int t = 0; t < 200; ++t)
            {
                int q = int(r.below(64));
                if (b.sq[q]) continue;
                if (kind == ref::KIND_P && (ref::rank_of(q) == 0 || ref::rank_of(q) == 7)) continue;
                b.sq[q] = ref::mk(color, kind);
                return;
            }
            ok = false;
        };
        place(strong, 'K');
        place(1 - strong, 'K');
        for (const char* p = s[0]; *p; ++p) place(strong, *p);
        for (const char* p = s[1]; *p; ++p) place(1 - strong, *p);
        if (!ok) continue;
        std::string fen = b.fen();
        if (!fen_is_sane(fen)) continue;
        if (b.legal().empty()) continue;
        return fen;
    }
    return "8/3k4/2b5/8/8/4P3/4B3/K7 b - - 0 1";
}

// both sides own many heavy pieces attacking each other: quiescence search explodes, iteration 1 takes very long
std::string gen_melee_fen(Rng& r)
{
    for (int attempt = 0; attempt < 300; ++attempt)
    {
        ref::Board b;
        std::memset(b.sq, 0, sizeof b.sq);
        b.castling = 0;
        b.ep = -1;
        b.side = int(r.below(2));
        b.halfmove = 0;
        b.fullmove = int(r.range(30, 80));
        auto place = [&](int8_t pc) {
            for (int t = 0; t < 100; ++t)
            {
                int q = int(r.below(64));
                if (!b.sq[q]) { b.sq[q] = pc; return; }
            }
        };
        place(ref::WK);
        place(ref::BK);
        for (int color = 0; color < 2; ++color)
        {
            int q = int(r.range(3, 8)), rk = int(r.range(1, 3)), bi = int(r.range(0, 2)), kn = int(r.range(1, 4));
            for (int i = 0; i < q; ++i) place(ref::mk(color, ref::KIND_Q));
            for (int i = 0; i < rk; ++i) place(ref::mk(color, ref::KIND_R));
            for (int i = 0; i < bi; ++i) place(ref::mk(color, ref::KIND_B));
            for (int i = 0; i < kn; ++i) place(ref::mk(color, ref::KIND_N));
        }
        std::string fen = b.fen();
        if (!fen_is_sane(fen)) continue;
        if (b.in_check(b.side)) continue;
        if (b.legal().size() < 20) continue;
        return fen;
    }
    return "q2k2q1/2nqn2b/1n1P1n1b/2rnr2Q/1NQ1QN1Q/3Q3B/2RQR2B/Q2K2Q1 w - - 0 1";
}

// Check-evasion boundary families.  Each returns a position (side to move is the future *checker*) together with the
// move that gives the check, so that the position after it is reached by a real move (a just-made double push).
//  kind 0: the only way to parry a slider check is a two-square pawn push that interposes
//  kind 1: a double pawn push gives check and capturing that pawn en passant is an (often the only) evasion
PosSpec gen_evasion_family(Rng& r)
{
    PosSpec p;
    for (int attempt = 0; attempt < 400; ++attempt)
    {
        ref::Board b;
        std::memset(b.sq, 0, sizeof b.sq);
        b.castling = 0;
        b.ep = -1;
        b.halfmove = int(r.below(10));
        b.fullmove = int(r.range(20, 60));
        int kind = int(r.below(3));
        bool flip_colors = r.chance(0.5);
        bool mirror = r.chance(0.5);
        ref::RMove checking{};
        if (kind == 0)
        {
            // defender (white here) king h1, own men on g1/h2, pawn on e2 or c2; attacker bishop/queen arrives on the long diagonal
            b.sq[ref::sq_of(7, 0)] = ref::WK;
            b.sq[ref::sq_of(6, 0)] = r.chance(0.5) ? ref::WB : ref::WN;
            b.sq[ref::sq_of(7, 1)] = ref::WP;
            int pf = r.chance(0.7) ? 4 : 2;  // e2-e4 lands on e4 (a8-h1 diagonal); c2-c4 does not: control case
            b.sq[ref::sq_of(pf, 1)] = ref::WP;
            // attacker piece starts off the diagonal and moves onto it (b7 / a8 / c6)
            int8_t att = r.chance(0.5) ? ref::BB : ref::BQ;
            static const int from_sq[][2] = {{2, 7}, {0, 5}, {1, 5}};  // c8, a6, b6
            static const int to_sq[][2] = {{1, 6}, {1, 6}, {2, 5}};    // b7, b7, c6
            int w = int(r.below(3));
            if (att == ref::BQ && w == 2) w = 0;
            b.sq[ref::sq_of(from_sq[w][0], from_sq[w][1])] = att;
            checking.from = int8_t(ref::sq_of(from_sq[w][0], from_sq[w][1]));
            checking.to = int8_t(ref::sq_of(to_sq[w][0], to_sq[w][1]));
            // attacker king somewhere safe
            b.sq[ref::sq_of(int(r.range(4, 6)), 7)] = ref::BK;
            b.side = 1;
            // a few random extra men far from the diagonal
            int extra = int(r.below(3));
            for (int i = 0; i < extra; ++i)
            {
                int q = int(r.below(64));
                int f = ref::file_of(q), rk = ref::rank_of(q);
                if (b.sq[q] || f + rk == 7 || rk == 0 || rk == 7) continue;
                b.sq[q] = r.chance(0.5) ? ref::WP : ref::BP;
            }
        }
        else if (kind == 2)
        {
            // en passant with a pinned capturer: after the double push the capturing pawn is pinned against its own king
            // on the file (capture illegal), on the rank through both pawns (illegal) or on the capture diagonal (legal)
            int f = int(r.range(1, 6));
            int cf = r.chance(0.5) ? f - 1 : f + 1;           // file of the capturing (white) pawn, on rank 5
            b.sq[ref::sq_of(f, 6)] = ref::BP;                  // will play to rank 5
            b.sq[ref::sq_of(cf, 4)] = ref::WP;
            checking.from = int8_t(ref::sq_of(f, 6));
            checking.to = int8_t(ref::sq_of(f, 4));
            uint64_t pin = r.below(3);
            if (pin == 0)
            {
                // file pin: white king below the pawn on its file, black rook/queen above it
                b.sq[ref::sq_of(cf, int(r.range(0, 2)))] = ref::WK;
                b.sq[ref::sq_of(cf, 7)] = r.chance(0.5) ? ref::BR : ref::BQ;
                b.sq[ref::sq_of((cf + 4) % 8 == f ? (cf + 3) % 8 : (cf + 4) % 8, 7)] = ref::BK;
            }
            else if (pin == 1)
            {
                // rank pin through both pawns: king and rook on rank 5 either side
                int lo = std::min(f, cf), hi = std::max(f, cf);
                if (lo == 0 || hi == 7) continue;
                b.sq[ref::sq_of(0, 4)] = ref::WK;
                b.sq[ref::sq_of(7, 4)] = r.chance(0.5) ? ref::BR : ref::BQ;
                b.sq[ref::sq_of(4, 7)] = ref::BK;
                if (b.sq[ref::sq_of(4, 7)] != ref::BK) continue;
            }
            else
            {
                // diagonal pin along the capture direction: the capture stays on the pin line and is legal
                int df = f - cf;                                 // +1 or -1: capture goes from (cf,4) to (f,5)
                int kf2 = cf - df, kr2 = 3;                      // king one step behind the pawn on that diagonal
                int bf = f + df, br = 6;                         // bishop two steps ahead
                if (kf2 < 0 || kf2 > 7 || bf < 0 || bf > 7) continue;
                b.sq[ref::sq_of(kf2, kr2)] = ref::WK;
                b.sq[ref::sq_of(bf, br)] = r.chance(0.5) ? ref::BB : ref::BQ;
                b.sq[ref::sq_of(7 - kf2 > 3 ? 7 : 0, 7)] = ref::BK;
            }
            // some extra white pawns so that the capture is not the only sensible move
            for (int i = 0; i < 2; ++i)
            {
                int q = ref::sq_of(int(r.below(8)), 1);
                if (!b.sq[q]) b.sq[q] = ref::WP;
            }
            b.side = 1;
        }
        else if (r.chance(0.5))
        {
            // boxed variant: defender king on the edge, every flight covered, the only evasion is the en-passant capture
            // (attacker: Kc5, bishop on the f1-a6 diagonal, pawn b2; defender: Ka5, pawn a4)
            b.sq[ref::sq_of(0, 4)] = ref::BK;
            b.sq[ref::sq_of(0, 3)] = ref::BP;
            b.sq[ref::sq_of(2, 4)] = ref::WK;
            static const int bs[][2] = {{5, 0}, {4, 1}, {3, 2}};
            int bi = int(r.below(3));
            b.sq[ref::sq_of(bs[bi][0], bs[bi][1])] = r.chance(0.8) ? ref::WB : ref::WQ;
            b.sq[ref::sq_of(1, 1)] = ref::WP;
            checking.from = int8_t(ref::sq_of(1, 1));
            checking.to = int8_t(ref::sq_of(1, 3));
            // harmless extras for the defender
            if (r.chance(0.5)) b.sq[ref::sq_of(7, 7)] = ref::BR;
            if (r.chance(0.5)) b.sq[ref::sq_of(int(r.range(4, 7)), 6)] = ref::BP;
            b.side = 0;
        }
        else
        {
            // attacker (white) pawn on its start rank double-pushes next to an enemy pawn and gives check to a king
            int f = int(r.range(1, 6));
            int side_f = r.chance(0.5) ? f - 1 : f + 1;
            b.sq[ref::sq_of(f, 1)] = ref::WP;          // will go to rank 4 (index 3)
            b.sq[ref::sq_of(side_f, 3)] = ref::BP;     // can capture en passant on (f, rank 3 idx 2)
            // the defender's king stands diagonally in front of the landing square: checked by the pawn
            int kf = r.chance(0.5) ? f - 1 : f + 1;
            if (kf == side_f) kf = 2 * f - side_f;
            if (kf < 0 || kf > 7) continue;
            b.sq[ref::sq_of(kf, 4)] = ref::BK;
            checking.from = int8_t(ref::sq_of(f, 1));
            checking.to = int8_t(ref::sq_of(f, 3));
            // attacker king + pieces that take flight squares away
            b.sq[ref::sq_of(int(r.below(8)), 0)] = ref::WK;
            int extra = int(r.range(2, 5));
            for (int i = 0; i < extra; ++i)
            {
                int q = int(r.below(64));
                if (b.sq[q]) continue;
                static const int8_t ws[] = {ref::WQ, ref::WR, ref::WB, ref::WN, ref::WR};
                b.sq[q] = ws[r.below(5)];
            }
            b.side = 0;
        }
        if (mirror)
        {
            ref::Board m = b;
            for (int q = 0; q < 64; ++q) m.sq[q] = b.sq[ref::sq_of(7 - ref::file_of(q), ref::rank_of(q))];
            b = m;
            checking.from = int8_t(ref::sq_of(7 - ref::file_of(checking.from), ref::rank_of(checking.from)));
            checking.to = int8_t(ref::sq_of(7 - ref::file_of(checking.to), ref::rank_of(checking.to)));
        }
        if (flip_colors)
        {
            ref::Board m = b;
            for (int q = 0; q < 64; ++q)
            {
                int8_t pc = b.sq[ref::sq_of(ref::file_of(q), 7 - ref::rank_of(q))];
                m.sq[q] = pc == 0 ? 0 : int8_t(pc >= ref::BP ? pc - 6 : pc + 6);
            }
            m.side = 1 - b.side;
            b = m;
            checking.from = int8_t(ref::sq_of(ref::file_of(checking.from), 7 - ref::rank_of(checking.from)));
            checking.to = int8_t(ref::sq_of(ref::file_of(checking.to), 7 - ref::rank_of(checking.to)));
        }
        std::string fen = b.fen();
        if (!fen_is_sane(fen)) continue;
        ref::RMove chk;
        ref::Board t = b;
        if (!t.legal_uci(checking.uci(), chk)) continue;
        t.make(chk);
        if (kind != 2 && !t.in_check(t.side)) continue;
        p.start_fen = fen;
        p.game = ref::Game(b);
        // half of the time hand out the position before the checking move (the engine has to find / judge it),
        // otherwise the position after it (the engine is the one in check)
        if ((kind == 2 || r.chance(0.5)) && !t.legal().empty()) p.game.push(chk);
        if (p.game.cur.legal().empty()) continue;
        return p;
    }
    p.start_fen = "2b3k1/8/8/8/8/8/4P2P/6BK b - - 0 1";
    p.game = ref::Game(ref::Board(p.start_fen));
    return p;
}

// A rook or queen plays e1-g1 / e1-c1 / e8-g8 / e8-c8 (the squares of a castling king move) while its own king is
// elsewhere and the *opponent* still has castling rights: move text that looks like castling but is not.
PosSpec gen_castle_lookalike(Rng& r)
{
    PosSpec p;
    for (int attempt = 0; attempt < 200; ++attempt)
    {
        ref::Board b;
        std::memset(b.sq, 0, sizeof b.sq);
        b.ep = -1;
        b.halfmove = int(r.below(20));
        b.fullmove = int(r.range(15, 50));
        bool white_moves = r.chance(0.5);
        int my = white_moves ? 0 : 1;
        int myrank = white_moves ? 0 : 7, oprank = white_moves ? 7 : 0;
        // opponent: king and both rooks at home, all rights
        b.sq[ref::sq_of(4, oprank)] = ref::mk(1 - my, ref::KIND_K);
        b.sq[ref::sq_of(0, oprank)] = ref::mk(1 - my, ref::KIND_R);
        b.sq[ref::sq_of(7, oprank)] = ref::mk(1 - my, ref::KIND_R);
        b.castling = white_moves ? 12 : 3;
        // mover: king away from the e-file, heavy piece on e1/e8, target side clear
        bool kingside = r.chance(0.5);
        int kf = kingside ? int(r.range(0, 2)) : int(r.range(6, 7));
        b.sq[ref::sq_of(kf, myrank)] = ref::mk(my, ref::KIND_K);
        b.sq[ref::sq_of(4, myrank)] = ref::mk(my, r.chance(0.6) ? ref::KIND_R : ref::KIND_Q);
        // pawn shields so that nothing is en prise at once
        for (int f = 0; f < 8; ++f)
        {
            if (r.chance(0.6)) b.sq[ref::sq_of(f, white_moves ? 1 : 6)] = ref::mk(my, ref::KIND_P);
            if (r.chance(0.6)) b.sq[ref::sq_of(f, white_moves ? 6 : 1)] = ref::mk(1 - my, ref::KIND_P);
        }
        if (r.chance(0.5)) b.sq[ref::sq_of(int(r.range(2, 5)), white_moves ? 5 : 2)] = ref::mk(1 - my, ref::KIND_N);
        b.side = my;
        std::string fen = b.fen();
        if (!fen_is_sane(fen)) continue;
        ref::RMove m;
        m.from = int8_t(ref::sq_of(4, myrank));
        m.to = int8_t(ref::sq_of(kingside ? 6 : 2, myrank));
        m.promo = 0;
        ref::RMove chk;
        ref::Board t = b;
        if (!t.legal_uci(m.uci(), chk)) continue;
        t.make(chk);
        if (t.legal().empty()) continue;
        p.start_fen = fen;
        p.game = ref::Game(b);
        p.game.push(chk);
        playout(p.game, r, int(r.below(4)), 0.2);
        if (p.game.cur.legal().empty()) continue;
        return p;
    }
    return gen_evasion_family(r);
}

// >= 64 legal moves for the side to move, no mate within two moves, lone enemy king: wide nodes with cheap subtrees
std::string gen_wide_fen(Rng& r)
{
    for (int attempt = 0; attempt < 400; ++attempt)
    {
        ref::Board b;
        std::memset(b.sq, 0, sizeof b.sq);
        b.castling = 0;
        b.ep = -1;
        b.halfmove = 0;
        b.fullmove = 60;
        int strong = int(r.below(2));
        b.side = strong;
        auto place = [&](int8_t pc) {
            for (int t = 0; t < 100; ++t)
            {
                int q = int(r.below(64));
                if (!b.sq[q]) { b.sq[q] = pc; return; }
            }
        };
        place(ref::mk(strong, ref::KIND_K));
        place(ref::mk(1 - strong, ref::KIND_K));
        int kn = int(r.range(3, 6)), bi = int(r.range(3, 6));
        if (kn - 2 + bi - 2 > 8) bi = 10 - kn;
        for (int i = 0; i < kn; ++i) place(ref::mk(strong, ref::KIND_N));
        for (int i = 0; i < bi; ++i) place(ref::mk(strong, ref::KIND_B));
        if (r.chance(0.5)) place(ref::mk(strong, ref::KIND_R));
        std::string fen = b.fen();
        if (!fen_is_sane(fen)) continue;
        if (b.legal().size() < 64) continue;
        ref::MateSolver ms(300000);
        if (ms.attacker(b, 2) != 0) continue;
        return fen;
    }
    return "BBBBBBBB/BB6/8/8/8/8/5k2/K7 w - - 0 1";
}

// king and minor piece against king and pawn(s) huddled in a corner: zugzwang and mating-net motifs
std::string gen_corner_zugzwang_fen(Rng& r)
{
    for (int attempt = 0; attempt < 300; ++attempt)
    {
        ref::Board b;
        std::memset(b.sq, 0, sizeof b.sq);
        b.castling = 0;
        b.ep = -1;
        b.halfmove = int(r.below(10));
        b.fullmove = int(r.range(40, 90));
        b.side = int(r.below(2));
        // weak king near a1, its pawn(s) on the a/b files, strong king and minor close by
        auto near = [&](int f0, int r0, int d) {
            for (int t = 0; t < 50; ++t)
            {
                int f = f0 + int(r.range(-d, d)), rk = r0 + int(r.range(-d, d));
                if (f < 0 || f > 7 || rk < 0 || rk > 7) continue;
                if (!b.sq[ref::sq_of(f, rk)]) return ref::sq_of(f, rk);
            }
            return -1;
        };
        int wk = near(0, 0, 1);
        if (wk < 0) continue;
        b.sq[wk] = ref::BK;
        int np = int(r.range(1, 2));
        bool ok = true;
        for (int i = 0; i < np; ++i)
        {
            int q = ref::sq_of(int(r.below(2)), int(r.range(1, 4)));
            if (b.sq[q]) { ok = false; break; }
            b.sq[q] = ref::BP;
        }
        if (!ok) continue;
        int sk = near(2, 1, 1);
        if (sk < 0) continue;
        b.sq[sk] = ref::WK;
        int mn = near(3, 2, 2);
        if (mn < 0) continue;
        b.sq[mn] = r.chance(0.7) ? ref::WN : ref::WB;
        if (r.chance(0.2))
        {
            int q = near(4, 3, 3);
            if (q >= 0 && ref::rank_of(q) != 0 && ref::rank_of(q) != 7) b.sq[q] = ref::WP;
        }
        // random symmetry
        if (r.chance(0.5))
        {
            ref::Board m = b;
            for (int q = 0; q < 64; ++q) m.sq[q] = b.sq[ref::sq_of(7 - ref::file_of(q), ref::rank_of(q))];
            b = m;
        }
        if (r.chance(0.5))
        {
            ref::Board m = b;
            for (int q = 0; q < 64; ++q)
            {
                int8_t pc = b.sq[ref::sq_of(ref::file_of(q), 7 - ref::rank_of(q))];
                m.sq[q] = pc == 0 ? 0 : int8_t(pc >= ref::BP ? pc - 6 : pc + 6);
            }
            m.side = 1 - b.side;
            b = m;
        }
        std::string fen = b.fen();
        if (!fen_is_sane(fen)) continue;
        if (b.legal().empty()) continue;
        return fen;
    }
    return "8/8/8/8/8/1p6/3K1N2/1k6 w - - 0 1";
}

void playout(ref::Game& g, Rng& r, int plies, double bias, bool avoid_terminal)
{
    for (int i = 0; i < plies; ++i)
    {
        auto ms = g.cur.legal();
        if (ms.empty()) return;
        ref::RMove choice = ms[r.below(ms.size())];
        if (r.chance(bias))
        {
            // prefer captures / promotions / castling / checks
            std::vector<ref::RMove> pref;
            for (auto& m : ms)
            {
                bool special = g.cur.is_capture(m) || m.promo ||
                               (ref::kind_of(g.cur.sq[m.from]) == ref::KIND_K && std::abs(ref::file_of(m.to) - ref::file_of(m.from)) == 2);
                if (!special)
                {
                    ref::Undo u = g.cur.make(m);
                    special = g.cur.in_check(g.cur.side);
                    g.cur.unmake(m, u);
                }
                if (special) pref.push_back(m);
            }
            if (!pref.empty()) choice = pref[r.below(pref.size())];
        }
        if (avoid_terminal)
        {
            // do not step into a position without legal moves (keeps ">= 1 legal move")
            bool found = false;
            for (int tries = 0; tries < 8; ++tries)
            {
                ref::Undo u = g.cur.make(choice);
                bool term = g.cur.legal().empty();
                g.cur.unmake(choice, u);
                if (!term) { found = true; break; }
                choice = ms[r.below(ms.size())];
            }
            if (!found) return;
        }
        g.push(choice);
    }
}

// queen-side castling right, c- and d-file squares of the home rank empty, an enemy knight or bishop on b1/b8: castling
// long is not legal (the rook would have to pass over the piece), although king path and target squares are free
std::string gen_castle_enemy_on_b_file_fen(Rng& r)
{
    for (int attempt = 0; attempt < 300; ++attempt)
    {
        ref::Board b;
        std::memset(b.sq, 0, sizeof b.sq);
        b.ep = -1;
        b.halfmove = int(r.below(10));
        b.fullmove = int(r.range(15, 50));
        int my = int(r.below(2)), op = 1 - my;
        int home = my == 0 ? 0 : 7, far = my == 0 ? 7 : 0;
        b.sq[ref::sq_of(4, home)] = ref::mk(my, ref::KIND_K);
        b.sq[ref::sq_of(0, home)] = ref::mk(my, ref::KIND_R);
        b.sq[ref::sq_of(1, home)] = ref::mk(op, r.chance(0.5) ? ref::KIND_N : ref::KIND_B);
        b.castling = my == 0 ? 2 : 8;
        if (r.chance(0.4)) { b.sq[ref::sq_of(7, home)] = ref::mk(my, ref::KIND_R); b.castling |= my == 0 ? 1 : 4; }
        // enemy king (sometimes where castling long would hurt it), pawns, a few pieces
        int ekf = r.chance(0.5) ? 3 : int(r.below(8));
        b.sq[ref::sq_of(ekf, far)] = ref::mk(op, ref::KIND_K);
        for (int f = 0; f < 8; ++f)
        {
            if (r.chance(0.5)) b.sq[ref::sq_of(f, my == 0 ? 1 : 6)] = ref::mk(my, ref::KIND_P);
            if (r.chance(0.5) && f != 3) b.sq[ref::sq_of(f, my == 0 ? 6 : 1)] = ref::mk(op, ref::KIND_P);
        }
        int extra = int(r.range(0, 4));
        for (int i = 0; i < extra; ++i)
        {
            int q = ref::sq_of(int(r.below(8)), int(r.range(2, 5)));
            if (b.sq[q]) continue;
            b.sq[q] = ref::mk(r.chance(0.5) ? my : op, int(r.range(ref::KIND_N, ref::KIND_Q)));
        }
        b.side = my;
        std::string fen = b.fen();
        if (!fen_is_sane(fen)) continue;
        if (b.in_check(my)) continue;
        if (b.attacked(ref::sq_of(2, home), op) || b.attacked(ref::sq_of(3, home), op)) continue;
        if (b.legal().empty()) continue;
        return fen;
    }
    return "2rkr3/2p1p3/8/8/8/8/P1P5/Rb2K3 w Q - 0 1";
}

// discovered double check: a knight standing between a rook/queen and the enemy king on a file or rank jumps to a
// square from which it checks too.  The defender must move the king, and the square behind the king on the slider's line
// is not a flight square (x-ray).  Returned either with the double check on the board (defender to move) or, when it is
// mate, one ply earlier (mate in one by double check).
PosSpec gen_double_check_family(Rng& r)
{
    static const int KN[8][2] = {{1, 2}, {2, 1}, {2, -1}, {1, -2}, {-1, -2}, {-2, -1}, {-2, 1}, {-1, 2}};
    for (int attempt = 0; attempt < 400; ++attempt)
    {
        ref::Board b;
        std::memset(b.sq, 0, sizeof b.sq);
        b.castling = 0;
        b.ep = -1;
        b.halfmove = int(r.below(10));
        b.fullmove = int(r.range(20, 60));
        int att = int(r.below(2)), def = 1 - att;
        bool vertical = r.chance(0.5);
        // line coordinate l runs along the line, c is the fixed cross coordinate
        int c = int(r.below(8));
        int lk = int(r.range(2, 6)), ls, ln;
        bool from_low = r.chance(0.5);
        if (from_low) { if (lk < 2) continue; ls = int(r.range(0, lk - 2)); ln = int(r.range(ls + 1, lk - 1)); }
        else { if (lk > 5) continue; ls = int(r.range(lk + 2, 7)); ln = int(r.range(lk + 1, ls - 1)); }
        auto sqof = [&](int l) { return vertical ? ref::sq_of(c, l) : ref::sq_of(l, c); };
        int ksq = sqof(lk), ssq = sqof(ls), nsq = sqof(ln);
        b.sq[ksq] = ref::mk(def, ref::KIND_K);
        b.sq[ssq] = ref::mk(att, r.chance(0.6) ? ref::KIND_R : ref::KIND_Q);
        b.sq[nsq] = ref::mk(att, ref::KIND_N);
        // attacker king far from the action
        for (int t = 0; t < 50; ++t)
        {
            int q = int(r.below(64));
            if (b.sq[q]) continue;
            if (std::abs(ref::file_of(q) - ref::file_of(ksq)) < 3 && std::abs(ref::rank_of(q) - ref::rank_of(ksq)) < 3) continue;
            b.sq[q] = ref::mk(att, ref::KIND_K);
            break;
        }
        // some furniture: defender men next to their king (fewer flights), a few others anywhere off the line
        int extra = int(r.range(0, 6));
        for (int i = 0; i < extra; ++i)
        {
            int q = int(r.below(64));
            if (b.sq[q]) continue;
            if ((vertical ? ref::file_of(q) : ref::rank_of(q)) == c) continue;
            int kind = int(r.range(ref::KIND_P, ref::KIND_Q));
            if (kind == ref::KIND_K) continue;
            if (kind == ref::KIND_P && (ref::rank_of(q) == 0 || ref::rank_of(q) == 7)) continue;
            b.sq[q] = ref::mk(r.chance(0.6) ? def : att, kind);
        }
        b.side = att;
        std::string fen = b.fen();
        if (!fen_is_sane(fen)) continue;
        if (b.in_check(def) || b.in_check(att)) continue;
        // knight destinations that check the king
        std::vector<ref::RMove> cand;
        for (auto& m : b.legal())
        {
            if (m.from != nsq) continue;
            bool hits = false;
            for (auto& d : KN)
                if (ref::file_of(m.to) + d[0] == ref::file_of(ksq) && ref::rank_of(m.to) + d[1] == ref::rank_of(ksq)) hits = true;
            if (hits) cand.push_back(m);
        }
        if (cand.empty()) continue;
        ref::RMove m = cand[r.below(cand.size())];
        PosSpec p;
        p.start_fen = fen;
        p.game = ref::Game(b);
        ref::Board t = b;
        t.make(m);
        if (!t.in_check(def)) continue;
        if (!t.legal().empty()) p.game.push(m);  // defender to move, in double check; else: mate in one for the attacker
        return p;
    }
    return gen_evasion_family(r);
}

PosSpec gen_position(Rng& r, int max_plies, int source_mix)
{
    PosSpec p;
    // source_mix: 0 = general, 1 = sparse-heavy (endgames / mates), 2 = startpos games only
    if (source_mix != 2 && r.chance(0.06)) return gen_evasion_family(r);
    if (source_mix != 2 && r.chance(0.04)) return gen_castle_lookalike(r);
    if (source_mix != 2 && r.chance(0.04)) return gen_double_check_family(r);
    if (source_mix != 2 && r.chance(0.03)) { PosSpec q; q.start_fen = gen_castle_enemy_on_b_file_fen(r); q.game = ref::Game(ref::Board(q.start_fen)); return q; }
    uint64_t pick = r.below(100);
    ref::Board start;
    if (source_mix == 2 || (source_mix == 0 && pick < 45))
    {
        p.start_fen.clear();
    }
    else if ((source_mix == 0 && pick < 80) || (source_mix == 1 && pick < 30))
    {
        auto& c = curated_fens();
        p.start_fen = c[r.below(c.size())];
        start = ref::Board(p.start_fen);
    }
    else
    {
        uint64_t k = r.below(10);
        if (k < 2 && source_mix == 0) p.start_fen = gen_melee_fen(r);
        else if (k < 4) p.start_fen = gen_endgame_class_fen(r);
        else p.start_fen = gen_sparse_fen(r, 1, source_mix == 1 ? 5 : 8, true);
        start = ref::Board(p.start_fen);
    }
    p.game = ref::Game(start);
    int plies = 0;
    if (max_plies > 0)
    {
        if (p.start_fen.empty()) plies = int(r.logrange(1, max_plies));
        else plies = r.chance(0.5) ? 0 : int(r.logrange(1, std::max(1, max_plies / 2)));
    }
    playout(p.game, r, plies, r.unit() * 0.6);
    return p;
}

const std::vector<std::string>& mate_fens()
{
    static const std::vector<std::string> v = filter_sane({
        "6k1/5ppp/8/8/8/8/8/R3K3 w Q - 0 1",
        "r1bqkb1r/pppp1ppp/2n2n2/4p2Q/2B1P3/8/PPPP1PPP/RNB1K1NR w KQkq - 4 4",
        "k7/8/1K6/8/8/8/8/7Q w - - 0 1",
        "k7/8/2K5/8/8/8/8/7Q w - - 0 1",
        "7k/5K2/8/8/8/8/8/6R1 w - - 0 1",
        "6k1/5ppp/8/8/8/8/8/R3K3 w Q - 99 80",
        "6k1/5ppp/8/8/8/8/8/R3K3 w Q - 98 80",
        "7k/8/5K2/8/8/8/8/6R1 w - - 0 1",
        "8/8/8/8/8/5k2/7q/7K w - - 0 1",
        "1k6/8/1K6/8/8/8/8/7R w - - 0 1",
        "r5rk/5p1p/5R2/4B3/8/8/7P/7K w - - 0 1",
        "5rk1/5ppp/8/8/8/8/1Q6/K6R w - - 0 1",
        // the mating move is a promotion
        "7k/P7/6K1/8/8/8/8/8 w - - 0 1",
        "k7/7p/1K6/8/8/8/8/8 b - - 0 1",
        "6k1/2P3pp/8/8/8/8/8/6K1 w - - 0 1",
        "5k2/4P1pp/5K2/8/8/8/8/8 w - - 0 1",
        "8/8/8/8/8/5k2/4p1PP/6K1 b - - 0 1",
        "3r2k1/1P3ppp/8/8/8/8/8/6K1 w - - 0 1",
    });
    return v;
}

}  // namespace sim
