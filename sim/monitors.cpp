// Run-time monitors evaluated inside simulated searches (C03, C04, C07) and
// harness-side checks executed while the engine is quiescent (driver ops).
#include <sys/wait.h>
#include <unistd.h>

#include <algorithm>
#include <cstdio>
#include <cstring>
#include <iterator>
#include <memory>
#include <sstream>
#include <unordered_map>

#include "endgame.h"
#include "movegen.h"
#include "polyglot.h"
#include "position.h"
#include "score.h"
#include "search.h"
#include "transposition_table.h"
#include "uci.h"

#include "simint.h"

namespace sim
{
using namespace engine;

struct Snap
{
    bool valid = false;
    Piece board[SQUARE_NUM];
    int piece_count[PIECE_NUM];
    Bitboard piece_sets[PIECE_NUM];
    Bitboard by_kind[PIECE_KIND_NUM];
    Bitboard by_color[COLOR_NUM];
    Castling castling;
    Square ep;
    uint32_t half;
    int32_t ply_counter;
    Color side;
    uint64_t hash, pawn_hash;
    int32_t history_counter;
    uint64_t hist_tail;
    bool heavy = false;
    uint64_t hist_full = 0;
    std::string fen;
    std::vector<Move> moves;
    Value eval = 0;
    bool rep = false, three = false, r50 = false, draw = false;
    int heavy_compares = 0;
};

static void take_snap(const Position& p, Snap& s, bool heavy)
{
    s.valid = true;
    std::memcpy(s.board, p._board, sizeof s.board);
    std::memcpy(s.piece_count, p._piece_count, sizeof s.piece_count);
    for (uint32_t pc = 0; pc < PIECE_NUM; ++pc)
    {
        Bitboard b = 0;
        int n = p._piece_count[pc];
        if (n < 0) n = 0;
        if (n > 10) n = 10;
        for (int i = 0; i < n; ++i) b |= 1ULL << (p._piece_position[pc][i] & 63);
        s.piece_sets[pc] = b;
    }
    std::memcpy(s.by_kind, p._by_piece_kind_bb, sizeof s.by_kind);
    std::memcpy(s.by_color, p._by_color_bb, sizeof s.by_color);
    s.castling = p._castling_rights;
    s.ep = p._enpassant_square;
    s.half = p._half_move_counter;
    s.ply_counter = p._ply_counter;
    s.side = p._current_side;
    s.hash = p.hash();
    s.pawn_hash = p.pawn_hash();
    s.history_counter = p._history_counter;
    uint64_t h = FNV_INIT;
    for (int i = std::max(0, p._history_counter - 4); i < p._history_counter && i < int(std::size(p._history)); ++i) h = fnv1a_u64(h, p._history[i]);
    s.hist_tail = h;
    s.heavy = heavy;
    s.heavy_compares = 0;
    if (heavy)
    {
        uint64_t hf = FNV_INIT;
        for (int i = 0; i < p._history_counter && i < int(std::size(p._history)); ++i) hf = fnv1a_u64(hf, p._history[i]);
        s.hist_full = hf;
        s.fen = p.fen();
        Move buf[MAX_MOVES];
        Move* e = generate_moves(p, p.color(), buf);
        s.moves.assign(buf, e);
        std::sort(s.moves.begin(), s.moves.end());
        auto fresh = std::make_unique<PositionScorer>();  // heap: zero-filled by the harness's operator new, so that even an
        s.eval = fresh->score(p);                          // evaluator that forgets to initialise a member is deterministic
        s.rep = p.is_repeated();
        s.three = p.threefold_repetition();
        s.r50 = p.rule50();
        s.draw = p.is_draw();
    }
}

static std::string diff_snap(const Position& p, const Snap& s, bool heavy)
{
    Snap n;
    take_snap(p, n, heavy && s.heavy);
    if (std::memcmp(n.board, s.board, sizeof n.board)) return "board";
    if (std::memcmp(n.piece_count, s.piece_count, sizeof n.piece_count)) return "piece_count";
    if (std::memcmp(n.piece_sets, s.piece_sets, sizeof n.piece_sets)) return "piece_list";
    if (std::memcmp(n.by_kind, s.by_kind, sizeof n.by_kind)) return "by_kind_bb";
    if (std::memcmp(n.by_color, s.by_color, sizeof n.by_color)) return "by_color_bb";
    if (n.castling != s.castling) return "castling_rights";
    if (n.ep != s.ep) return "enpassant_square";
    if (n.half != s.half) return "half_move_counter";
    if (n.ply_counter != s.ply_counter) return "ply_counter";
    if (n.side != s.side) return "side";
    if (n.hash != s.hash) return "hash";
    if (n.pawn_hash != s.pawn_hash) return "pawn_hash";
    if (n.history_counter != s.history_counter) return "history_counter";
    if (n.hist_tail != s.hist_tail) return "history_tail";
    if (heavy && s.heavy)
    {
        if (n.hist_full != s.hist_full) return "history";
        if (n.fen != s.fen) return "fen";
        if (n.moves != s.moves) return "generated_moves";
        if (n.eval != s.eval) return "static_eval";
        if (n.rep != s.rep) return "is_repeated";
        if (n.three != s.three) return "threefold_repetition";
        if (n.r50 != s.r50) return "rule50";
        if (n.draw != s.draw) return "is_draw";
    }
    return "";
}

constexpr int SNAP_PLIES = 4 * MAX_DEPTH + 8;

struct Monitors
{
    Snap snaps[SNAP_PLIES];
    Snap root;
    int64_t node_counter = 0;
    // C04
    std::unordered_map<std::string, uint64_t> key_of;
    std::unordered_map<uint64_t, std::string> pos_of;
    std::unordered_map<std::string, uint64_t> pawnkey_of;
    std::unordered_map<uint64_t, std::string> pawns_of;
    // C07 model path
    ref::Board mboard[SNAP_PLIES];
    bool mnull[SNAP_PLIES];
    int pathlen[SNAP_PLIES];
    std::vector<std::string> pathkeys;  // pathkeys[i] = key of the position after the i-th real move on the path (1-based; [0] unused)
    const ref::Game* root_game = nullptr;
    ref::Game root_game_copy;
    // driver-side snapshot
    Snap driver_snap;
    // C14: first value seen for each probed position
    std::unordered_map<std::string, Value> first_eval;
};

void World::setup_monitors()
{
    mon = new Monitors();
    mon->pathkeys.resize(SNAP_PLIES + 1);
}
void World::teardown_monitors()
{
    delete mon;
    mon = nullptr;
}

static std::string key4_of_fen(const std::string& fen)
{
    // first four fields
    size_t pos = 0;
    int sp = 0;
    for (; pos < fen.size(); ++pos)
        if (fen[pos] == ' ' && ++sp == 4) break;
    return fen.substr(0, pos);
}

static std::string pawn_placement(const Position& p)
{
    std::string s(64, '.');
    for (uint32_t sq = 0; sq < 64; ++sq)
    {
        Piece pc = p.piece_at(Square(sq));
        if (pc == W_PAWN) s[sq] = 'P';
        else if (pc == B_PAWN) s[sq] = 'p';
    }
    return s;
}

static void c04_check(World* w, const Position& p, const char* where)
{
    Monitors* m = w->mon;
    std::string fen = p.fen();
    Position fresh(fen);
    w->counters["c04_checks"]++;
    if (fresh.hash() != p.hash())
    {
        w->violation("C04", "incremental-key-differs-from-scratch", std::string(where) + ": " + fen);
        return;
    }
    if (fresh.pawn_hash() != p.pawn_hash())
    {
        w->violation("C04", "incremental-pawnkey-differs-from-scratch", std::string(where) + ": " + fen);
        return;
    }
    if (w->cfg.zobrist_mode == 2) return;  // keys collide on purpose
    // "positions that differ in any of the four components get different keys": one-component perturbations
    if ((m->node_counter & 7) == 0 || where[0] == 'a')
    {
        std::istringstream is(fen);
        std::string pl, sd, ca, ep, hm, fm;
        is >> pl >> sd >> ca >> ep >> hm >> fm;
        if (ep != "-")
        {
            Position q(pl + " " + sd + " " + ca + " - " + hm + " " + fm);
            w->counters["c04_perturb_ep"]++;
            if (q.hash() == p.hash()) w->violation("C04", "en-passant-square-not-in-key", fen + " has the same key as the position without the en-passant square");
        }
        if (ca != "-")
        {
            std::string ca2 = ca.substr(1);
            if (ca2.empty()) ca2 = "-";
            Position q(pl + " " + sd + " " + ca2 + " " + ep + " " + hm + " " + fm);
            w->counters["c04_perturb_castling"]++;
            if (q.hash() == p.hash()) w->violation("C04", "castling-right-not-in-key", fen + " has the same key with castling rights " + ca2);
        }
        if (ep == "-" && !p.is_in_check(p.color()))
        {
            Position q(pl + " " + (sd == "w" ? "b" : "w") + " " + ca + " - " + hm + " " + fm);
            w->counters["c04_perturb_side"]++;
            if (q.hash() == p.hash()) w->violation("C04", "side-to-move-not-in-key", fen + " has the same key with the other side to move");
        }
    }
    std::string k4 = key4_of_fen(fen);
    auto it = m->key_of.find(k4);
    if (it == m->key_of.end())
    {
        m->key_of.emplace(k4, p.hash());
        auto ins = m->pos_of.emplace(p.hash(), k4);
        if (!ins.second && ins.first->second != k4)
            w->violation("C04", "different-positions-same-key", k4 + " vs " + ins.first->second);
        w->counters["c04_distinct_positions"]++;
    }
    else
    {
        w->counters["c04_transpositions_seen"]++;
        if (it->second != p.hash()) w->violation("C04", "same-position-different-key", std::string(where) + ": " + k4);
    }
    std::string pp = pawn_placement(p);
    auto pit = m->pawnkey_of.find(pp);
    if (pit == m->pawnkey_of.end())
    {
        m->pawnkey_of.emplace(pp, p.pawn_hash());
        auto ins = m->pawns_of.emplace(p.pawn_hash(), pp);
        if (!ins.second && ins.first->second != pp) w->violation("C04", "different-pawns-same-pawnkey", pp + " vs " + ins.first->second);
    }
    else if (pit->second != p.pawn_hash())
        w->violation("C04", "pawnkey-depends-on-non-pawn-state", std::string(where) + ": " + fen);
}

// C04, "whichever move order, make/unmake path or FEN they were reached by": the position the engine arrived at by
// moves (a game replayed through `position ... moves`, or the search's own path) against the same position - as the
// rules give it for that move list - set up from its FEN.
static void c04_same_key_as_fen(World* w, const Position& p, const ref::Board& mb, const char* where)
{
    w->counters["c04_path_vs_fen_checks"]++;
    Position fresh(mb.fen());
    if (fresh.hash() != p.hash())
        w->violation("C04", "same-position-different-key",
                     std::string(where) + ": reached by moves the key differs from the key of the same position set up from its FEN " + mb.fen() + " (the engine's own description of what it reached: " +
                         key4_of_fen(p.fen()) + ")");
    else if (fresh.pawn_hash() != p.pawn_hash())
        w->violation("C04", "pawnkey-depends-on-non-pawn-state", std::string(where) + ": pawn key reached by moves differs from the pawn key of " + mb.fen());
}

static ref::RMove decode_engine_move(Move mv, int side)
{
    ref::RMove r;
    if (castling(mv) != NO_CASTLING)
    {
        int home = side == 0 ? 4 : 60;
        r.from = int8_t(home);
        r.to = int8_t((castling(mv) & KING_CASTLING) ? home + 2 : home - 2);
        r.promo = 0;
        return r;
    }
    r.from = int8_t(mv & 63);
    r.to = int8_t((mv >> 6) & 63);
    int pk = int((mv >> 12) & 7);
    r.promo = int8_t(pk >= 2 && pk <= 5 ? pk : 0);  // engine kinds: KNIGHT=2..QUEEN=5 == ref KIND_N..KIND_Q
    return r;
}

static void c07_compare(World* w, const Position& p, ref::Board& mb, int earlier, const char* where, bool with_mate_preds)
{
    w->counters["c07_checks"]++;
    std::string ek = key4_of_fen(p.fen());
    // the engine's idea of the position differs from what the rules give for this move list (that alone would be C02's
    // business); the predicates are still compared against the rules: the property is about the answers
    bool desync = ek != mb.key4();
    if (desync) w->counters["c07_model_desync"]++;
    auto bad = [&](const char* pred, bool eng, bool model) {
        w->violation("C07", std::string("predicate-") + pred,
                     std::string(where) + ": " + pred + " engine=" + (eng ? "true" : "false") + " rules=" + (model ? "true" : "false") + " at " + mb.fen() +
                         " earlier_occurrences=" + std::to_string(earlier) + (desync ? " (engine's own position: " + ek + ")" : ""));
    };
    bool chk = mb.in_check(mb.side);
    if (p.is_in_check(p.color()) != chk) bad("is_in_check", p.is_in_check(p.color()), chk);
    if (p.is_repeated() != (earlier >= 1)) bad("is_repeated", p.is_repeated(), earlier >= 1);
    if (p.threefold_repetition() != (earlier >= 2)) bad("threefold_repetition", p.threefold_repetition(), earlier >= 2);
    bool r50 = mb.halfmove >= 100;
    if (p.rule50() != r50) bad("rule50", p.rule50(), r50);
    bool insuff = mb.insufficient_material();
    if (p.enough_material() != !insuff) bad("enough_material", p.enough_material(), !insuff);
    bool draw = r50 || earlier >= 2 || insuff;
    if (p.is_draw() != draw) bad("is_draw", p.is_draw(), draw);
    if (earlier >= 1) w->counters["c07_repeated_positions"]++;
    if (earlier >= 2) w->counters["c07_threefold_positions"]++;
    if (r50) w->counters["c07_rule50_positions"]++;
    if (insuff) w->counters["c07_insufficient_positions"]++;
    if (chk) w->counters["c07_check_positions"]++;
    if (with_mate_preds)
    {
        bool nomoves = mb.legal().empty();
        bool mate = chk && nomoves, stale = !chk && nomoves;
        if (p.is_checkmate() != mate) bad("is_checkmate", p.is_checkmate(), mate);
        if (p.is_stalemate() != stale) bad("is_stalemate", p.is_stalemate(), stale);
        if (mate) w->counters["c07_checkmate_positions"]++;
        if (stale) w->counters["c07_stalemate_positions"]++;
    }
}

void World::monitor_go_entry(Task* t, Search* s)
{
    (void)t;
    if (cfg.mon_c03) take_snap(s->_position, mon->root, true);
    if (cfg.mon_c07 || cfg.mon_c04)
    {
        mon->root_game_copy = game;  // model game as of the go command (the GUI is sequential: no position change during a search)
        if (t->go_index >= 0)
        {
            // game may have moved on if the GUI sent a later position already; rebuild from the go's own root record
            // (well-formed scripts never do that, but keep the monitor honest)
            if (gos[t->go_index].root.key4() != game.cur.key4()) mon->root_game_copy = ref::Game(gos[t->go_index].root);
        }
        mon->root_game = &mon->root_game_copy;
    }
    for (auto& sn : mon->snaps) sn.valid = false;
}

void World::monitor_before_bestmove(Task* t, Search* s)
{
    (void)t;
    if (cfg.mon_c03 && mon->root.valid)
    {
        counters["c03_root_compares"]++;
        std::string d = diff_snap(s->_position, mon->root, true);
        if (!d.empty()) violation("C03", "search-altered-root-position:" + d, "field " + d + " of the searched position differs after the search; root fen " + mon->root.fen);
    }
}

void World::monitor_node(Task* t, int id, const Position* pos, const Info* info)
{
    (void)t;
    (void)id;
    Monitors* m = mon;
    int ply = info->_ply;
    if (ply < 0 || ply >= SNAP_PLIES) return;
    m->node_counter++;
    bool heavy = cfg.monitor_rate > 0 && (m->node_counter % cfg.monitor_rate) == 0;
    if (cfg.mon_c03)
    {
        take_snap(*pos, m->snaps[ply], heavy);
        counters["c03_snapshots"]++;
    }
    if (cfg.mon_c04 && heavy) c04_check(this, *pos, "search node");
    if ((cfg.mon_c07 || cfg.mon_c04) && m->root_game)
    {
        if (ply == 0)
        {
            m->mboard[0] = m->root_game->cur;
            m->mnull[0] = false;
            m->pathlen[0] = 0;
        }
        else
        {
            Move pm = (info - 1)->_current_move;
            m->mboard[ply] = m->mboard[ply - 1];
            m->mnull[ply] = m->mnull[ply - 1];
            m->pathlen[ply] = m->pathlen[ply - 1];
            if (pm == NO_MOVE)
            {
                if (int(pos->color()) != m->mboard[ply - 1].side)
                {
                    // null move
                    m->mboard[ply].side = 1 - m->mboard[ply].side;
                    m->mboard[ply].ep = -1;
                    m->mnull[ply] = true;
                    counters["c07_null_move_nodes"]++;
                }
                // else: verification search on the unchanged position
            }
            else
            {
                ref::RMove rm = decode_engine_move(pm, m->mboard[ply - 1].side);
                m->mboard[ply].make(rm);
                m->pathlen[ply] = m->pathlen[ply - 1] + 1;
                if (!m->mnull[ply]) m->pathkeys[m->pathlen[ply]] = m->mboard[ply].key4();
            }
        }
        if (heavy && !m->mnull[ply])
        {
            // earlier occurrences of the current position in (game history + path)
            const std::string cur = m->pathlen[ply] == 0 ? m->root_game->keys.back() : m->pathkeys[m->pathlen[ply]];
            int earlier = 0;
            size_t G = m->root_game->keys.size();
            for (size_t i = 0; i < G; ++i)
                if (m->root_game->keys[i] == cur) earlier++;
            if (m->pathlen[ply] == 0) earlier--;  // the root itself is the last game key
            for (int i = 1; i < m->pathlen[ply]; ++i)
                if (m->pathkeys[i] == cur) earlier++;
            if (cfg.mon_c07) c07_compare(this, *pos, m->mboard[ply], earlier, "search node", false);
            if (cfg.mon_c04) c04_same_key_as_fen(this, *pos, m->mboard[ply], "search node");
        }
    }
}

void World::monitor_after_undo(Task* t, const Position* pos, const Info* info)
{
    (void)t;
    if (!cfg.mon_c03) return;
    int ply = info->_ply;
    if (ply < 0 || ply >= SNAP_PLIES) return;
    Snap& s = mon->snaps[ply];
    if (!s.valid) return;
    counters["c03_undo_compares"]++;
    if (info->_current_move == NO_MOVE) counters["c03_null_move_undo_compares"]++;
    else if (castling(info->_current_move) != NO_CASTLING) counters["c03_castling_undo_compares"]++;
    else if (promotion(info->_current_move) != NO_PIECE_KIND) counters["c03_promotion_undo_compares"]++;
    bool heavy = s.heavy && s.heavy_compares < 2;
    if (heavy) { s.heavy_compares++; counters["c03_heavy_compares"]++; }
    std::string d = diff_snap(*pos, s, heavy);
    if (!d.empty())
    {
        Move mv = info->_current_move;
        violation("C03", "undo-does-not-restore:" + d,
                  "after undo at ply " + std::to_string(ply) + " field " + d + " differs from the snapshot taken at node entry; fen now " + pos->fen() +
                      (s.heavy ? " snapshot fen " + s.fen : "") + " move code " + std::to_string(mv));
    }
}

// ------------------------------------------------- pristine-process oracle --
// "Pure function of the position" taken literally: the value computed for a position by a process that has never
// evaluated anything else.  A server forked before this process' first world forks one grandchild per request; the
// grandchild evaluates exactly one position with a new evaluator and exits.  Catches dependence on *any* retained
// state, including function-local or file-scope statics that a fresh PositionScorer in this process would share.
static int g_pr_to = -1, g_pr_from = -1;

void pristine_server_start_once()
{
    static bool started = false;
    if (started) return;
    started = true;
    int to[2], from[2];
    if (pipe(to) != 0 || pipe(from) != 0) return;
    fflush(nullptr);
    pid_t pid = fork();
    if (pid < 0) return;
    if (pid == 0)
    {
        close(to[1]);
        close(from[0]);
        FILE* in = fdopen(to[0], "r");
        char buf[512];
        while (in && fgets(buf, sizeof buf, in))
        {
            std::string fen(buf);
            while (!fen.empty() && (fen.back() == '\n' || fen.back() == '\r')) fen.pop_back();
            pid_t g = fork();
            if (g == 0)
            {
                Position p(fen);
                auto sc = std::make_unique<PositionScorer>();
                long long v = sc->score(p);
                char out[64];
                int n = snprintf(out, sizeof out, "%lld\n", v);
                if (write(from[1], out, size_t(n)) != n) _exit(1);
                _exit(0);
            }
            int st = 0;
            waitpid(g, &st, 0);
            if (!(WIFEXITED(st) && WEXITSTATUS(st) == 0))
            {
                const char* e = "ERR\n";
                if (write(from[1], e, 4) != 4) _exit(1);
            }
        }
        _exit(0);
    }
    close(to[0]);
    close(from[1]);
    g_pr_to = to[1];
    g_pr_from = from[0];
}

static bool pristine_eval(const std::string& fen, Value& out)
{
    if (g_pr_to < 0) return false;
    std::string l = fen + "\n";
    if (write(g_pr_to, l.data(), l.size()) != ssize_t(l.size())) return false;
    std::string r;
    char c;
    while (read(g_pr_from, &c, 1) == 1)
    {
        if (c == '\n') break;
        r += c;
    }
    if (r.empty() || r == "ERR") return false;
    out = atoll(r.c_str());
    return true;
}

// ---------------------------------------------------------------- driver --
static std::vector<std::string> split_bar(const std::string& s)
{
    std::vector<std::string> out;
    size_t a = 0;
    while (a <= s.size())
    {
        size_t b = s.find('|', a);
        if (b == std::string::npos) b = s.size();
        if (b > a) out.push_back(s.substr(a, b - a));
        a = b + 1;
    }
    return out;
}

void run_book_op(World* w, const std::string& name, const std::string& args);  // booksim.cpp

void World::run_driver_op(const Op& op)
{
    std::string name = op.line, args;
    size_t sp = op.line.find(' ');
    if (sp != std::string::npos)
    {
        name = op.line.substr(0, sp);
        args = op.line.substr(sp + 1);
    }
    trace(0xD01, fnv1a(FNV_INIT, op.line.data(), op.line.size()));
    if (op.kind == OP_POISON)
    {
        // args: "<entry seed> <mode>"  mode 0: key of the current position, 1: key of a child, 2: grandchild
        uint64_t eseed = 0;
        int mode = 0;
        sscanf(op.line.c_str(), "%lu %d", &eseed, &mode);
        Position p = uci->position;
        Rng r(eseed ^ 0x1234);
        for (int d = 0; d < mode; ++d)
        {
            Move buf[MAX_MOVES];
            Move* e = generate_moves(p, p.color(), buf);
            if (e == buf) break;
            p.do_move(buf[r.below(uint64_t(e - buf))]);
        }
        poison_entry(this, p.hash(), eseed, &p);
        return;
    }
    if (name == "c07")
    {
        // engine's current position against the model game
        int earlier = game.occurrences() - 1;
        ref::Board mb = game.cur;
        c07_compare(this, uci->position, mb, earlier, "after position command", true);
        counters["c07_position_checks"]++;
        return;
    }
    if (name == "c04")
    {
        c04_check(this, uci->position, "after position command");
        c04_same_key_as_fen(this, uci->position, game.cur, "after position command");
        return;
    }
    if (name == "c03snap")
    {
        take_snap(uci->position, mon->driver_snap, true);
        return;
    }
    if (name == "c03cmp")
    {
        if (!mon->driver_snap.valid) return;
        counters["c03_command_compares"]++;
        std::string d = diff_snap(uci->position, mon->driver_snap, true);
        if (!d.empty()) violation("C03", "command-altered-position:" + d, args + ": field " + d + " differs; before: " + mon->driver_snap.fen + " after: " + uci->position.fen());
        return;
    }
    if (name == "c14probe" || name == "c14eval")
    {
        int pristine_budget = 4;
        for (auto& fen : split_bar(args))
        {
            Position p(fen);
            Value a = uci->scorer.score(p);
            counters["c14_evals_on_session_evaluator"]++;
            // the same position must always get the same value in this session
            {
                auto it = mon->first_eval.find(fen);
                if (it == mon->first_eval.end()) mon->first_eval.emplace(fen, a);
                else
                {
                    counters["c14_revisits"]++;
                    if (it->second != a)
                        violation("C14", "evaluation-changes-on-revisit", fen + ": first evaluated to " + std::to_string(it->second) + ", now " + std::to_string(a));
                }
            }
            if (name == "c14eval") continue;
            if (pristine_budget-- > 0)
            {
                Value pv = 0;
                if (pristine_eval(fen, pv))
                {
                    counters["c14_pristine_process_probes"]++;
                    if (pv != a)
                        violation("C14", "evaluation-differs-from-pristine-process", fen + ": session evaluator " + std::to_string(a) + ", a process that never evaluated anything else " + std::to_string(pv));
                }
            }
            auto fresh = std::make_unique<PositionScorer>();
            Value b = fresh->score(p);
            counters["c14_probes"]++;
            if (p.pieces(WHITE, PAWN) == 0 && p.pieces(BLACK, PAWN) == 0) counters["c14_pawnless_probes"]++;
            if (a != b)
                violation("C14", "evaluation-depends-on-history", fen + ": session evaluator " + std::to_string(a) + " fresh evaluator " + std::to_string(b));
            for (Value v : {a, b})
                if (v <= lost_in(MAX_DEPTH) || v >= win_in(MAX_DEPTH) || v >= VALUE_MATE - MAX_DEPTH || v <= -(VALUE_MATE - MAX_DEPTH))
                    violation("C14", "evaluation-in-mate-range", fen + ": " + std::to_string(v));
        }
        return;
    }
    if (name.rfind("book", 0) == 0 || name.rfind("c19", 0) == 0)
    {
        run_book_op(this, name, args);
        return;
    }
    infra("unknown driver op '" + op.line + "'");
}

}  // namespace sim
