// Independent reference chess model (oracle).  Shares no code and no tables
// with the engine: 8x8 mailbox, pseudo-legal generation + make + "own king
// attacked?" filter, rules written from the FIDE Laws (art. 3, 5, 9).
// Validated by perft against published node counts (see ref_selftest()).
#ifndef VERIF_REFMODEL_H_
#define VERIF_REFMODEL_H_

#include <cstdint>
#include <cstdlib>
#include <cstring>
#include <sstream>
#include <algorithm>
#include <string>
#include <unordered_map>
#include <vector>

namespace ref
{
enum : int8_t { EMPTY = 0, WP, WN, WB, WR, WQ, WK, BP, BN, BB, BR, BQ, BK };
enum : int { KIND_P = 1, KIND_N, KIND_B, KIND_R, KIND_Q, KIND_K };

inline int kind_of(int8_t p) { return p == 0 ? 0 : (p - 1) % 6 + 1; }
inline int color_of(int8_t p) { return p >= BP ? 1 : 0; }  // only for p != 0
inline int8_t mk(int color, int kind) { return int8_t(kind + 6 * color); }
inline int sq_of(int file, int rank) { return rank * 8 + file; }
inline int file_of(int s) { return s & 7; }
inline int rank_of(int s) { return s >> 3; }

struct RMove
{
    int8_t from = 0, to = 0, promo = 0;  // promo: 0 or KIND_N..KIND_Q
    bool operator==(const RMove& o) const { return from == o.from && to == o.to && promo == o.promo; }
    std::string uci() const
    {
        std::string s;
        s += char('a' + file_of(from));
        s += char('1' + rank_of(from));
        s += char('a' + file_of(to));
        s += char('1' + rank_of(to));
        if (promo) s += " nbrq"[promo - 1];
        return s;
    }
};

struct Undo
{
    int8_t captured, cap_sq, moved;
    int8_t castling, ep;
    int halfmove;
    int8_t rook_from, rook_to;
};

struct Board
{
    int8_t sq[64];
    int side;       // 0 white, 1 black
    int castling;   // bit0 K, bit1 Q, bit2 k, bit3 q
    int ep;         // -1 or square behind the pawn that just made a double step
    int halfmove;
    int fullmove;

    Board() { set_fen("rnbqkbnr/pppppppp/8/8/8/8/PPPPPPPP/RNBQKBNR w KQkq - 0 1"); }
    explicit Board(const std::string& fen) { set_fen(fen); }

    bool set_fen(const std::string& fen)
    {
        std::memset(sq, 0, sizeof sq);
        std::istringstream is(fen);
        std::string pl, sd, ca, e;
        halfmove = 0;
        fullmove = 1;
        if (!(is >> pl >> sd >> ca >> e)) return false;
        is >> halfmove >> fullmove;
        int r = 7, f = 0;
        for (char c : pl)
        {
            if (c == '/') { r--; f = 0; continue; }
            if (c >= '1' && c <= '8') { f += c - '0'; continue; }
            const char* pcs = "PNBRQKpnbrqk";
            const char* p = std::strchr(pcs, c);
            if (!p || r < 0 || f > 7) return false;
            sq[sq_of(f, r)] = int8_t(p - pcs + 1);
            f++;
        }
        side = sd == "w" ? 0 : 1;
        castling = 0;
        for (char c : ca)
        {
            if (c == 'K') castling |= 1;
            if (c == 'Q') castling |= 2;
            if (c == 'k') castling |= 4;
            if (c == 'q') castling |= 8;
        }
        ep = -1;
        if (e != "-" && e.size() == 2) ep = sq_of(e[0] - 'a', e[1] - '1');
        return true;
    }

    std::string placement() const
    {
        std::string s;
        for (int r = 7; r >= 0; --r)
        {
            int run = 0;
            for (int f = 0; f < 8; ++f)
            {
                int8_t p = sq[sq_of(f, r)];
                if (!p) { run++; continue; }
                if (run) { s += char('0' + run); run = 0; }
                s += "PNBRQKpnbrqk"[p - 1];
            }
            if (run) s += char('0' + run);
            if (r) s += '/';
        }
        return s;
    }

    // the four components by which the properties compare positions
    std::string key4() const
    {
        std::string s = placement();
        s += side ? " b " : " w ";
        if (!castling) s += '-';
        else
        {
            if (castling & 1) s += 'K';
            if (castling & 2) s += 'Q';
            if (castling & 4) s += 'k';
            if (castling & 8) s += 'q';
        }
        s += ' ';
        if (ep < 0) s += '-';
        else { s += char('a' + file_of(ep)); s += char('1' + rank_of(ep)); }
        return s;
    }

    std::string fen() const
    {
        return key4() + " " + std::to_string(halfmove) + " " + std::to_string(fullmove);
    }

    int king_sq(int color) const
    {
        int8_t k = mk(color, KIND_K);
        for (int s = 0; s < 64; ++s)
            if (sq[s] == k) return s;
        return -1;
    }

    // is square s attacked by a piece of colour `by`?
    bool attacked(int s, int by) const
    {
        int f = file_of(s), r = rank_of(s);
        // pawns: a white pawn on (f±1, r-1) attacks s
        int pr = by == 0 ? r - 1 : r + 1;
        if (pr >= 0 && pr < 8)
        {
            if (f > 0 && sq[sq_of(f - 1, pr)] == mk(by, KIND_P)) return true;
            if (f < 7 && sq[sq_of(f + 1, pr)] == mk(by, KIND_P)) return true;
        }
        static const int nd[8][2] = {{1, 2}, {2, 1}, {2, -1}, {1, -2}, {-1, -2}, {-2, -1}, {-2, 1}, {-1, 2}};
        for (auto& d : nd)
        {
            int nf = f + d[0], nr = r + d[1];
            if (nf < 0 || nf > 7 || nr < 0 || nr > 7) continue;
            if (sq[sq_of(nf, nr)] == mk(by, KIND_N)) return true;
        }
        for (int df = -1; df <= 1; ++df)
            for (int dr = -1; dr <= 1; ++dr)
            {
                if (!df && !dr) continue;
                int nf = f + df, nr = r + dr;
                if (nf >= 0 && nf <= 7 && nr >= 0 && nr <= 7 && sq[sq_of(nf, nr)] == mk(by, KIND_K)) return true;
                // sliders
                bool diag = df && dr;
                while (nf >= 0 && nf <= 7 && nr >= 0 && nr <= 7)
                {
                    int8_t p = sq[sq_of(nf, nr)];
                    if (p)
                    {
                        if (color_of(p) == by)
                        {
                            int k = kind_of(p);
                            if (k == KIND_Q || (diag && k == KIND_B) || (!diag && k == KIND_R)) return true;
                        }
                        break;
                    }
                    nf += df;
                    nr += dr;
                }
            }
        return false;
    }

    bool in_check(int color) const
    {
        int k = king_sq(color);
        return k >= 0 && attacked(k, 1 - color);
    }

    void add(std::vector<RMove>& out, int from, int to, bool promo_rank) const
    {
        if (promo_rank)
        {
            for (int k : {KIND_Q, KIND_R, KIND_B, KIND_N}) out.push_back(RMove{int8_t(from), int8_t(to), int8_t(k)});
        }
        else
            out.push_back(RMove{int8_t(from), int8_t(to), 0});
    }

    void pseudo(std::vector<RMove>& out) const
    {
        for (int s = 0; s < 64; ++s)
        {
            int8_t p = sq[s];
            if (!p || color_of(p) != side) continue;
            int f = file_of(s), r = rank_of(s), k = kind_of(p);
            if (k == KIND_P)
            {
                int dir = side == 0 ? 1 : -1;
                int start = side == 0 ? 1 : 6;
                int last = side == 0 ? 7 : 0;
                int nr = r + dir;
                if (nr < 0 || nr > 7) continue;
                if (!sq[sq_of(f, nr)])
                {
                    add(out, s, sq_of(f, nr), nr == last);
                    if (r == start && !sq[sq_of(f, r + 2 * dir)]) add(out, s, sq_of(f, r + 2 * dir), false);
                }
                for (int df : {-1, 1})
                {
                    int nf = f + df;
                    if (nf < 0 || nf > 7) continue;
                    int t = sq_of(nf, nr);
                    if (sq[t] && color_of(sq[t]) != side) add(out, s, t, nr == last);
                    else if (t == ep && !sq[t])
                    {
                        // the pawn to be captured must stand beside us
                        int8_t victim = sq[sq_of(nf, r)];
                        if (victim == mk(1 - side, KIND_P) && r == (side == 0 ? 4 : 3)) add(out, s, t, false);
                    }
                }
                continue;
            }
            if (k == KIND_N || k == KIND_K)
            {
                static const int nd[8][2] = {{1, 2}, {2, 1}, {2, -1}, {1, -2}, {-1, -2}, {-2, -1}, {-2, 1}, {-1, 2}};
                static const int kd[8][2] = {{1, 0}, {1, 1}, {0, 1}, {-1, 1}, {-1, 0}, {-1, -1}, {0, -1}, {1, -1}};
                auto& dd = k == KIND_N ? nd : kd;
                for (auto& d : dd)
                {
                    int nf = f + d[0], nr = r + d[1];
                    if (nf < 0 || nf > 7 || nr < 0 || nr > 7) continue;
                    int t = sq_of(nf, nr);
                    if (!sq[t] || color_of(sq[t]) != side) add(out, s, t, false);
                }
                if (k == KIND_K)
                {
                    // castling (FIDE 3.8.2): rights, empty squares between, king not in check,
                    // does not pass over or land on an attacked square
                    int home = side == 0 ? 4 : 60;
                    if (s == home && !attacked(home, 1 - side))
                    {
                        int kbit = side == 0 ? 1 : 4, qbit = side == 0 ? 2 : 8;
                        int8_t rook = mk(side, KIND_R);
                        if ((castling & kbit) && sq[home + 3] == rook && !sq[home + 1] && !sq[home + 2] &&
                            !attacked(home + 1, 1 - side) && !attacked(home + 2, 1 - side))
                            add(out, s, home + 2, false);
                        if ((castling & qbit) && sq[home - 4] == rook && !sq[home - 1] && !sq[home - 2] && !sq[home - 3] &&
                            !attacked(home - 1, 1 - side) && !attacked(home - 2, 1 - side))
                            add(out, s, home - 2, false);
                    }
                }
                continue;
            }
            for (int df = -1; df <= 1; ++df)
                for (int dr = -1; dr <= 1; ++dr)
                {
                    if (!df && !dr) continue;
                    bool diag = df && dr;
                    if (k == KIND_B && !diag) continue;
                    if (k == KIND_R && diag) continue;
                    int nf = f + df, nr = r + dr;
                    while (nf >= 0 && nf <= 7 && nr >= 0 && nr <= 7)
                    {
                        int t = sq_of(nf, nr);
                        if (!sq[t]) add(out, s, t, false);
                        else
                        {
                            if (color_of(sq[t]) != side) add(out, s, t, false);
                            break;
                        }
                        nf += df;
                        nr += dr;
                    }
                }
        }
    }

    Undo make(const RMove& m)
    {
        Undo u{};
        int8_t p = sq[m.from];
        int k = kind_of(p);
        u.moved = p;
        u.captured = sq[m.to];
        u.cap_sq = m.to;
        u.castling = int8_t(castling);
        u.ep = int8_t(ep);
        u.halfmove = halfmove;
        u.rook_from = u.rook_to = -1;
        bool is_ep = k == KIND_P && m.to == ep && !sq[m.to] && file_of(m.from) != file_of(m.to);
        if (is_ep)
        {
            u.cap_sq = int8_t(sq_of(file_of(m.to), rank_of(m.from)));
            u.captured = sq[u.cap_sq];
            sq[u.cap_sq] = 0;
        }
        sq[m.to] = m.promo ? mk(side, m.promo) : p;
        sq[m.from] = 0;
        if (k == KIND_K && std::abs(file_of(m.to) - file_of(m.from)) == 2)
        {
            int r = rank_of(m.from);
            if (file_of(m.to) == 6) { u.rook_from = int8_t(sq_of(7, r)); u.rook_to = int8_t(sq_of(5, r)); }
            else { u.rook_from = int8_t(sq_of(0, r)); u.rook_to = int8_t(sq_of(3, r)); }
            sq[u.rook_to] = sq[u.rook_from];
            sq[u.rook_from] = 0;
        }
        // castling rights: lost when king or rook leaves home, or home rook is captured
        auto touch = [&](int s) {
            if (s == 4) castling &= ~3;
            if (s == 60) castling &= ~12;
            if (s == 7) castling &= ~1;
            if (s == 0) castling &= ~2;
            if (s == 63) castling &= ~4;
            if (s == 56) castling &= ~8;
        };
        touch(m.from);
        touch(m.to);
        ep = -1;
        if (k == KIND_P && std::abs(rank_of(m.to) - rank_of(m.from)) == 2) ep = (m.from + m.to) / 2;
        if (k == KIND_P || u.captured) halfmove = 0;
        else halfmove++;
        if (side == 1) fullmove++;
        side = 1 - side;
        return u;
    }

    void unmake(const RMove& m, const Undo& u)
    {
        side = 1 - side;
        if (side == 1) fullmove--;
        halfmove = u.halfmove;
        ep = u.ep;
        castling = u.castling;
        if (u.rook_from >= 0)
        {
            sq[u.rook_from] = sq[u.rook_to];
            sq[u.rook_to] = 0;
        }
        sq[m.from] = u.moved;
        sq[m.to] = 0;
        if (u.captured) sq[u.cap_sq] = u.captured;
    }

    std::vector<RMove> legal()
    {
        std::vector<RMove> ps, out;
        ps.reserve(64);
        pseudo(ps);
        int me = side;
        for (auto& m : ps)
        {
            Undo u = make(m);
            if (!in_check(me)) out.push_back(m);
            unmake(m, u);
        }
        return out;
    }

    bool parse_uci(const std::string& s, RMove& m) const
    {
        if (s.size() < 4 || s.size() > 5) return false;
        int ff = s[0] - 'a', fr = s[1] - '1', tf = s[2] - 'a', tr = s[3] - '1';
        if (ff < 0 || ff > 7 || fr < 0 || fr > 7 || tf < 0 || tf > 7 || tr < 0 || tr > 7) return false;
        m.from = int8_t(sq_of(ff, fr));
        m.to = int8_t(sq_of(tf, tr));
        m.promo = 0;
        if (s.size() == 5)
        {
            switch (s[4])
            {
            case 'n': m.promo = KIND_N; break;
            case 'b': m.promo = KIND_B; break;
            case 'r': m.promo = KIND_R; break;
            case 'q': m.promo = KIND_Q; break;
            default: return false;
            }
        }
        return true;
    }

    // is `s` (UCI text) a legal move here?  fills m
    bool legal_uci(const std::string& s, RMove& m)
    {
        if (!parse_uci(s, m)) return false;
        for (auto& l : legal())
            if (l == m) return true;
        return false;
    }

    bool is_checkmate() { return in_check(side) && legal().empty(); }
    bool is_stalemate() { return !in_check(side) && legal().empty(); }

    // bare kings or a single minor piece (the property's definition)
    bool insufficient_material() const
    {
        int minors = 0;
        for (int s = 0; s < 64; ++s)
        {
            int k = kind_of(sq[s]);
            if (k == 0 || k == KIND_K) continue;
            if (k == KIND_N || k == KIND_B) minors++;
            else return false;
        }
        return minors <= 1;
    }

    bool is_capture(const RMove& m) const
    {
        if (sq[m.to]) return true;
        return kind_of(sq[m.from]) == KIND_P && m.to == ep && file_of(m.from) != file_of(m.to);
    }

    uint64_t perft(int d)
    {
        if (d == 0) return 1;
        auto ms = legal();
        if (d == 1) return ms.size();
        uint64_t n = 0;
        for (auto& m : ms)
        {
            Undo u = make(m);
            n += perft(d - 1);
            unmake(m, u);
        }
        return n;
    }
};

// A game: start position + moves, with the history the draw rules need.
struct Game
{
    Board start;
    Board cur;
    std::vector<std::string> keys;  // key4 of every position so far (incl. current)
    std::vector<RMove> moves;

    explicit Game(const Board& b = Board()) : start(b), cur(b) { keys.push_back(cur.key4()); }

    void push(const RMove& m)
    {
        cur.make(m);
        moves.push_back(m);
        keys.push_back(cur.key4());
    }
    int occurrences() const  // including the current one
    {
        int n = 0;
        for (auto& k : keys)
            if (k == keys.back()) n++;
        return n;
    }
    bool repeated() const { return occurrences() >= 2; }
    bool threefold() const { return occurrences() >= 3; }
    bool rule50() const { return cur.halfmove >= 100; }
    std::string moves_str() const
    {
        std::string s;
        for (auto& m : moves) { if (!s.empty()) s += ' '; s += m.uci(); }
        return s;
    }
};

// Bounded AND/OR mate solver.  mate_in(b, n): can the side to move force
// checkmate in at most n of its own moves?  Node budget makes it three-valued.
struct MateSolver
{
    uint64_t budget;
    uint64_t used = 0;
    bool exhausted = false;
    explicit MateSolver(uint64_t b = 2000000) : budget(b) {}

    // returns 1 yes, 0 no, -1 undecided
    int attacker(Board& b, int n)
    {
        if (n <= 0) return 0;
        if (++used > budget) { exhausted = true; return -1; }
        auto ms = b.legal();
        if (ms.empty()) return 0;
        bool undecided = false;
        // try checking moves first
        for (int pass = 0; pass < 2; ++pass)
            for (auto& m : ms)
            {
                Undo u = b.make(m);
                bool chk = b.in_check(b.side);
                int r = 0;
                if ((pass == 0) == chk) r = defender(b, n - 1, chk);
                b.unmake(m, u);
                if (r == 1) return 1;
                if (r == -1) undecided = true;
            }
        return undecided ? -1 : 0;
    }
    // side to move is the defender; is it mated now, or mated in <= n more attacker moves whatever it plays?
    int defender(Board& b, int n, bool in_chk)
    {
        if (++used > budget) { exhausted = true; return -1; }
        auto ms = b.legal();
        if (ms.empty()) return in_chk ? 1 : 0;  // stalemate is not mate
        if (n <= 0) return 0;
        bool undecided = false;
        for (auto& m : ms)
        {
            Undo u = b.make(m);
            int r = attacker(b, n);
            b.unmake(m, u);
            if (r == 0) return 0;
            if (r == -1) undecided = true;
        }
        return undecided ? -1 : 1;
    }
    // side to move is being mated: every move leads to mate within n attacker moves
    int mated_within(Board& b, int n)
    {
        return defender(b, n, b.in_check(b.side));
    }
};

// Proof-number-free but ordered mate search for longer announcements: iterative deepening over the number of attacker
// moves, only checking moves at the last attacker move, defender replies ordered (refutation found earlier first,
// captures, king moves), results cached per (position, n).  Answers 1 (forced mate within n attacker moves), 0 (none),
// -1 (node budget exhausted).  The 50-move rule and repetition are ignored (a forced mate never needs them).
struct MateSearch
{
    uint64_t budget, used = 0;
    std::unordered_map<std::string, int> no_mate_upto;             // position -> largest n proved "no mate within n"
    std::unordered_map<std::string, RMove> refutation;             // defender position -> reply that held last time
    explicit MateSearch(uint64_t b) : budget(b) {}

    int solve(Board& b, int n)
    {
        for (int k = 1; k <= n; ++k)
        {
            int r = att(b, k);
            if (r != 0) return r;
        }
        return 0;
    }
    int att(Board& b, int n)
    {
        if (n <= 0) return 0;
        if (++used > budget) return -1;
        std::string key = b.key4();
        auto it = no_mate_upto.find(key);
        if (it != no_mate_upto.end() && it->second >= n) return 0;
        auto ms = b.legal();
        if (ms.empty()) return 0;
        bool undecided = false;
        // checking moves first; at n == 1 only checking moves can mate
        std::vector<std::pair<int, RMove>> ord;
        for (auto& m : ms)
        {
            Undo u = b.make(m);
            bool chk = b.in_check(b.side);
            b.unmake(m, u);
            if (n == 1 && !chk) continue;
            ord.push_back({chk ? 0 : (b.is_capture(m) ? 1 : 2), m});
        }
        std::stable_sort(ord.begin(), ord.end(), [](const auto& x, const auto& y) { return x.first < y.first; });
        for (auto& om : ord)
        {
            Undo u = b.make(om.second);
            int r = def(b, n - 1);
            b.unmake(om.second, u);
            if (r == 1) return 1;
            if (r == -1) undecided = true;
        }
        if (undecided) return -1;
        int& slot = no_mate_upto[key];
        if (slot < n) slot = n;
        return 0;
    }
    // defender to move; attacker has n more moves after this reply.  1 = every reply loses (or already mated)
    int def(Board& b, int n)
    {
        if (++used > budget) return -1;
        auto ms = b.legal();
        bool chk = b.in_check(b.side);
        if (ms.empty()) return chk ? 1 : 0;
        if (n <= 0) return 0;
        std::string key = b.key4();
        std::vector<std::pair<int, RMove>> ord;
        auto rf = refutation.find(key);
        for (auto& m : ms)
        {
            int pri = 3;
            if (rf != refutation.end() && rf->second == m) pri = 0;
            else if (b.is_capture(m)) pri = 1;
            else if (kind_of(b.sq[m.from]) == KIND_K) pri = 2;
            ord.push_back({pri, m});
        }
        std::stable_sort(ord.begin(), ord.end(), [](const auto& x, const auto& y) { return x.first < y.first; });
        bool undecided = false;
        for (auto& om : ord)
        {
            Undo u = b.make(om.second);
            int r = 0;
            for (int k = 1; k <= n && r == 0; ++k) r = att(b, k);
            b.unmake(om.second, u);
            if (r == 0)
            {
                refutation[key] = om.second;
                return 0;
            }
            if (r == -1) undecided = true;
        }
        return undecided ? -1 : 1;
    }
};

inline bool ref_selftest(std::string& err)
{
    struct T { const char* fen; int d; uint64_t n; };
    static const T ts[] = {
        {"rnbqkbnr/pppppppp/8/8/8/8/PPPPPPPP/RNBQKBNR w KQkq - 0 1", 4, 197281},
        {"r3k2r/p1ppqpb1/bn2pnp1/3PN3/1p2P3/2N2Q1p/PPPBBPPP/R3K2R w KQkq - 0 1", 3, 97862},
        {"8/2p5/3p4/KP5r/1R3p1k/8/4P1P1/8 w - - 0 1", 4, 43238},
        {"r3k2r/Pppp1ppp/1b3nbN/nP6/BBP1P3/q4N2/Pp1P2PP/R2Q1RK1 w kq - 0 1", 3, 9467},
        {"rnbq1k1r/pp1Pbppp/2p5/8/2B5/8/PPP1NnPP/RNBQK2R w KQ - 1 8", 3, 62379},
        {"r4rk1/1pp1qppp/p1np1n2/2b1p1B1/2B1P1b1/P1NP1N2/1PP1QPPP/R4RK1 w - - 0 10", 3, 89890},
        // en passant: capture by a diagonally pinned pawn along the pin is legal
        {"8/6b1/8/4Pp2/8/2K5/8/7k w - f6 0 1", 1, 9},
        // en passant exposing the king along the rank is illegal
        {"8/8/8/K2pP2r/8/8/8/7k w - d6 0 1", 1, 6},
    };
    for (auto& t : ts)
    {
        Board b(t.fen);
        uint64_t n = b.perft(t.d);
        if (n != t.n)
        {
            err = std::string("perft mismatch on ") + t.fen + " got " + std::to_string(n) + " want " + std::to_string(t.n);
            return false;
        }
    }
    {
        Board b("6k1/5ppp/8/8/8/8/8/R3K3 w Q - 0 1");
        MateSolver s;
        if (s.attacker(b, 1) != 1) { err = "mate solver: back-rank mate in 1 not found"; return false; }
        Board c("7k/8/8/8/8/8/8/R3K3 w - - 0 1");
        MateSolver s2;
        if (s2.attacker(c, 1) != 0) { err = "mate solver: false mate in 1"; return false; }
        // KQ vs K: mate in 2 exists (Qb6-b7 style) for this position? use a known one
        Board d("k7/8/1K6/8/8/8/8/7Q w - - 0 1");  // Qh8# is mate in 1
        MateSolver s3;
        if (s3.attacker(d, 1) != 1) { err = "mate solver: Qh8# not found"; return false; }
        Board e("k7/8/2K5/8/8/8/8/7Q w - - 0 1");  // 1.Kb6 Kb8 2.Qh8# : mate in 2, none in 1
        MateSolver s4, s5;
        if (s4.attacker(e, 1) != 0) { err = "mate solver: false mate in 1 (KQK)"; return false; }
        if (s5.attacker(e, 2) != 1) { err = "mate solver: KQK mate in 2 not found"; return false; }
        MateSearch q1(2000000), q2(2000000), q3(2000000);
        Board e2 = e;
        if (q1.solve(e2, 1) != 0 || q2.solve(e2, 2) != 1) { err = "mate search: KQK mate in 2 (ordered search)"; return false; }
        Board f("r1bqkb1r/pppp1ppp/2n2n2/4p2Q/2B1P3/8/PPPP1PPP/RNB1K1NR w KQkq - 4 4");
        if (q3.solve(f, 3) != 1) { err = "mate search: scholar's mate not found"; return false; }
        Board g0("rnbqkbnr/pppppppp/8/8/8/8/PPPPPPPP/RNBQKBNR w KQkq - 0 1");
        MateSearch q4(3000000);
        if (q4.solve(g0, 2) != 0) { err = "mate search: start position has no mate in 2"; return false; }
    }
    return true;
}

}  // namespace ref

#endif
