#ifndef VERIF_RNG_H_
#define VERIF_RNG_H_
#include <cstdint>
#include <cmath>

inline uint64_t splitmix64(uint64_t& x)
{
    uint64_t z = (x += 0x9e3779b97f4a7c15ULL);
    z = (z ^ (z >> 30)) * 0xbf58476d1ce4e5b9ULL;
    z = (z ^ (z >> 27)) * 0x94d049bb133111ebULL;
    return z ^ (z >> 31);
}

inline uint64_t mix64(uint64_t a, uint64_t b)
{
    uint64_t x = a ^ (b * 0x9e3779b97f4a7c15ULL + 0x7f4a7c15ULL);
    return splitmix64(x);
}

struct Rng
{
    uint64_t s[4];
    explicit Rng(uint64_t seed = 1) { reseed(seed); }
    void reseed(uint64_t seed)
    {
        uint64_t x = seed;
        for (auto& v : s) v = splitmix64(x);
    }
    static uint64_t rotl(uint64_t x, int k) { return (x << k) | (x >> (64 - k)); }
    uint64_t next()
    {
        uint64_t r = rotl(s[1] * 5, 7) * 9, t = s[1] << 17;
        s[2] ^= s[0]; s[3] ^= s[1]; s[1] ^= s[2]; s[0] ^= s[3];
        s[2] ^= t; s[3] = rotl(s[3], 45);
        return r;
    }
    // uniform in [0, n)
    uint64_t below(uint64_t n) { return n ? next() % n : 0; }
    // uniform in [lo, hi]
    int64_t range(int64_t lo, int64_t hi) { return lo + int64_t(below(uint64_t(hi - lo + 1))); }
    bool chance(double p) { return (next() >> 11) * (1.0 / 9007199254740992.0) < p; }
    double unit() { return (next() >> 11) * (1.0 / 9007199254740992.0); }
    // log-uniform integer in [lo, hi], lo >= 1
    int64_t logrange(int64_t lo, int64_t hi)
    {
        double a = std::log(double(lo)), b = std::log(double(hi) + 1.0);
        int64_t v = int64_t(std::exp(a + (b - a) * unit()));
        if (v < lo) v = lo;
        if (v > hi) v = hi;
        return v;
    }
    template <class V> auto& pick(V& v) { return v[below(v.size())]; }
};

inline uint64_t fnv1a(uint64_t h, const void* p, size_t n)
{
    const unsigned char* c = static_cast<const unsigned char*>(p);
    for (size_t i = 0; i < n; ++i) { h ^= c[i]; h *= 0x100000001b3ULL; }
    return h;
}
inline uint64_t fnv1a_u64(uint64_t h, uint64_t v) { return fnv1a(h, &v, 8); }
constexpr uint64_t FNV_INIT = 0xcbf29ce484222325ULL;

#endif
