// Script <-> text (the replay file format): one record per line, tab separated.
#include <sstream>

#include "sim.h"

namespace sim
{
static std::string esc(const std::string& s)
{
    std::string o;
    for (char c : s)
    {
        if (c == '\t') o += "\\t";
        else if (c == '\n') o += "\\n";
        else if (c == '\\') o += "\\\\";
        else o += c;
    }
    return o;
}
static std::string unesc(const std::string& s)
{
    std::string o;
    for (size_t i = 0; i < s.size(); ++i)
    {
        if (s[i] == '\\' && i + 1 < s.size())
        {
            ++i;
            if (s[i] == 't') o += '\t';
            else if (s[i] == 'n') o += '\n';
            else o += s[i];
        }
        else o += s[i];
    }
    return o;
}

std::string script_to_text(const Script& s)
{
    std::ostringstream o;
    const Config& c = s.cfg;
    o << "cfg\tprop=" << c.prop << "\trun_seed=" << c.run_seed << "\tnode_cost_ns=" << c.node_cost_ns << "\tpolicy=" << c.policy
      << "\tzobrist_mode=" << c.zobrist_mode << "\tnode_cap=" << c.node_cap << "\txsputn_preempt=" << int(c.xsputn_preempt)
      << "\tmonitor_rate=" << c.monitor_rate << "\tmon_c03=" << int(c.mon_c03) << "\tmon_c04=" << int(c.mon_c04) << "\tmon_c07=" << int(c.mon_c07)
      << "\tawait_task_end=" << int(c.await_task_end) << "\tepoch_offset_us=" << c.epoch_offset_us << "\tsched_override=" << c.sched_override << "\n";
    for (auto& op : s.ops)
    {
        o << "op\t" << op.kind << "\t" << op.trig << "\t" << op.point << "\t" << op.k << "\t" << int(op.hold) << "\t" << esc(op.line) << "\n";
        for (auto& f : op.faults) o << "fault\t" << f.kind << "\t" << f.k << "\t" << f.a << "\t" << f.b << "\n";
    }
    if (!s.sched.empty())
    {
        o << "sched\t" << s.sched.size() << "\t";
        for (size_t i = 0; i < s.sched.size(); ++i) o << (i ? " " : "") << s.sched[i].first << ":" << s.sched[i].second;
        o << "\n";
    }
    return o.str();
}

static std::vector<std::string> split_tab(const std::string& s)
{
    std::vector<std::string> out;
    size_t a = 0;
    for (;;)
    {
        size_t b = s.find('\t', a);
        if (b == std::string::npos) { out.push_back(s.substr(a)); break; }
        out.push_back(s.substr(a, b - a));
        a = b + 1;
    }
    return out;
}

bool script_from_text(const std::string& text, Script& s, std::string& err)
{
    s = Script();
    std::istringstream is(text);
    std::string line;
    while (std::getline(is, line))
    {
        if (line.empty() || line[0] == '#') continue;
        auto f = split_tab(line);
        if (f[0] == "cfg")
        {
            for (size_t i = 1; i < f.size(); ++i)
            {
                size_t eq = f[i].find('=');
                if (eq == std::string::npos) continue;
                std::string k = f[i].substr(0, eq), v = f[i].substr(eq + 1);
                Config& c = s.cfg;
                if (k == "prop") c.prop = v;
                else if (k == "run_seed") c.run_seed = strtoull(v.c_str(), nullptr, 10);
                else if (k == "node_cost_ns") c.node_cost_ns = atoll(v.c_str());
                else if (k == "policy") c.policy = atoi(v.c_str());
                else if (k == "zobrist_mode") c.zobrist_mode = atoi(v.c_str());
                else if (k == "node_cap") c.node_cap = atoll(v.c_str());
                else if (k == "xsputn_preempt") c.xsputn_preempt = atoi(v.c_str());
                else if (k == "monitor_rate") c.monitor_rate = atoi(v.c_str());
                else if (k == "mon_c03") c.mon_c03 = atoi(v.c_str());
                else if (k == "mon_c04") c.mon_c04 = atoi(v.c_str());
                else if (k == "mon_c07") c.mon_c07 = atoi(v.c_str());
                else if (k == "await_task_end") c.await_task_end = atoi(v.c_str());
                else if (k == "epoch_offset_us") c.epoch_offset_us = atoll(v.c_str());
                else if (k == "sched_override") c.sched_override = atoi(v.c_str());
            }
        }
        else if (f[0] == "op")
        {
            if (f.size() < 7) { err = "bad op line: " + line; return false; }
            Op op;
            op.kind = atoi(f[1].c_str());
            op.trig = atoi(f[2].c_str());
            op.point = atoi(f[3].c_str());
            op.k = atoll(f[4].c_str());
            op.hold = atoi(f[5].c_str());
            op.line = unesc(f[6]);
            s.ops.push_back(op);
        }
        else if (f[0] == "fault")
        {
            if (f.size() < 5 || s.ops.empty()) { err = "bad fault line: " + line; return false; }
            Fault ft;
            ft.kind = atoi(f[1].c_str());
            ft.k = atoll(f[2].c_str());
            ft.a = atoll(f[3].c_str());
            ft.b = atoll(f[4].c_str());
            s.ops.back().faults.push_back(ft);
        }
        else if (f[0] == "sched" && f.size() >= 3)
        {
            std::istringstream ss(f[2]);
            std::string item;
            while (ss >> item)
            {
                size_t c = item.find(':');
                if (c == std::string::npos) continue;
                s.sched.push_back({atoi(item.substr(0, c).c_str()), atoll(item.substr(c + 1).c_str())});
            }
        }
        // other record kinds (meta, expect) are for humans and the gate
    }
    return true;
}

}  // namespace sim
