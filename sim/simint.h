// Internal structures of the simulator (shared by simcore.cpp, monitors.cpp, driverops.cpp).
#ifndef VERIF_SIMINT_H_
#define VERIF_SIMINT_H_

#include <deque>
#include <map>
#include <string>
#include <unordered_map>
#include <vector>

#include "sim.h"

namespace engine
{
class Uci;
class Position;
class Search;
struct Info;
}  // namespace engine

namespace sim
{
enum TaskKind { TK_READER = 0, TK_SEARCH = 1, TK_HELPER = 2 };
enum TaskState { ST_READY = 0, ST_RUNNING, ST_WAIT_INPUT, ST_WAIT_LOCK, ST_DONE, ST_WAIT_MUTEX, ST_WAIT_COND, ST_SLEEP, ST_WAIT_JOIN };
constexpr int MAX_TASKS = 1024;

struct Task
{
    int id = 0;
    int kind = TK_READER;
    volatile int go = 0;
    int state = ST_READY;
    int64_t quantum = 0;
    bool arrived = false;
    int64_t yields = 0;
    int64_t nodes = 0;
    int64_t root_visits_iter = 0;  // entries of the root node since the last completed iteration
    int last_point = 0;
    int64_t point_count[32] = {0};
    void* search_obj = nullptr;
    bool force_stop = false;
    int go_index = -1;
    std::vector<Fault> node_faults;
    size_t nf_next = 0;
    bool watch_armed = false;
    int watch_point = 0;
    int64_t watch_k = 0;
    bool trigger_fired = false;
    // blocking primitives intercepted at link level (pthread mutex / condition variable / sleep / join)
    const void* wait_obj = nullptr;     // mutex or condition variable the task waits for
    bool cond_signalled = false;
    int64_t wake_ns = -1;               // simulated deadline of a timed wait / sleep (-1: none)
    int64_t mutex_epoch_seen = 0;
    unsigned long pthread_id = 0;
    int join_target = -1;
};

struct InfoRec
{
    int64_t depth = -1, score = 0, nodes = 0, time = 0;
    bool is_mate = false;
    std::vector<std::string> pv;
    std::string line;
};

struct GoRec
{
    int index = 0;
    std::string line;
    ref::Board root;
    int root_game_plies = 0;
    bool root_has_moves = true;
    bool book_active = false;
    int64_t depth = 0, nodes = 0, movetime = 0, wtime = 0, btime = 0, winc = 0, binc = 0, movestogo = 0;
    bool has_movetime = false;
    bool infinite = false;
    std::vector<std::string> searchmoves;
    std::vector<Fault> faults;
    int64_t sent_seq = 0, sent_clock = 0;
    bool consumed = false;
    int consumed_seq = -1;
    int task = -1;
    bool task_done = false;
    bool entered = false;
    int64_t entry_clock = 0;
    int bestmoves = 0;
    std::string bestmove;
    int bestmove_seq = -1;
    int64_t bestmove_clock = 0;
    int64_t nodes_at_bestmove = 0;
    std::vector<InfoRec> infos;
    int iterations_done = 0;
    bool stop_sent = false, stop_consumed = false, stop_processed = false;
    bool node_limit_flagged = false;
    bool idle_after_stop_flagged = false;
    bool exit_pending = false;  // the GUI sent quit / closed the pipe before this go was answered: no bestmove is owed
    int64_t stop_line_no = 0;  // ordinal (among all `stop` lines the GUI sent) of the stop meant for this go
    std::string stop_window;
    int64_t nodes_at_stop = 0, clock_at_stop = 0;
    int64_t nodes_at_deadline = -1;
    // trigger watches registered before the task exists
    bool watch_armed = false;
    int watch_point = 0;
    int64_t watch_k = 0;
    bool watch_info_armed = false, watch_info_fired = false;
    int64_t watch_info_k = 0;
};

struct ReadyRec
{
    int64_t sent_seq = 0;
    bool consumed = false, answered = false;
    int64_t reader_yields_at_consume = 0;
    bool search_alive_at_consume = false;
    int answer_seq = -1;
};

struct OutLine
{
    int seq;
    int task;
    std::string text;
};

struct Monitors;  // monitors.cpp

struct World
{
    const Script* script = nullptr;
    Config cfg;
    engine::Uci* uci = nullptr;

    // baton
    volatile int driver_go = 0;
    Task tasks[MAX_TASKS];
    int spawned = 0;   // tasks created (atomic access)
    int claimed = 0;   // tasks bound to a physical thread (atomic access)

    // clock
    int64_t clock_ns = 0;
    int64_t nodes_total = 0;

    // pipe / transcript
    std::deque<std::string> inq;
    bool in_eof = false;
    int64_t wall_jump_ns = 0;         // accumulated steps of the wall clock (F_WALL_JUMP)
    bool exit_requested = false;      // the GUI sent quit or closed the pipe
    bool uci_destroyed = false;       // the reader left Uci::loop(): main() destroyed the Uci object and is in exit()
    int64_t exit_window_nodes = -1;   // node visits the other threads still get before exit_group (drawn)
    int64_t exit_nodes_base = 0, exit_steps = 0;
    std::string out_line;
    int out_line_first_writer = -1;
    bool out_line_mixed = false;
    std::vector<OutLine> transcript;
    std::vector<std::string> driver_out;
    std::string driver_line;
    int64_t seq = 0;
    int io_owner = -1;
    char gui_sync = 0;
    int64_t mutex_epoch = 0;  // bumped by every pthread_mutex_unlock of a simulated task

    // GUI
    size_t pc = 0;
    bool op_armed = false;
    int64_t op_ready_clock = 0;
    int64_t gui_time_event = -1;
    bool hold_search = false;
    bool gui_wake = false;
    bool spawn_hint = false;
    ref::Game game;
    bool position_set = false;
    std::vector<GoRec> gos;
    int cur_go = -1;
    int64_t stop_lines_sent = 0, stop_lines_consumed = 0;  // the pipe is FIFO: the n-th stop consumed is the n-th stop sent
    int consuming_go = -1;
    std::vector<ReadyRec> readys;
    bool poisoned = false;
    bool book_loaded_nonempty = false;
    std::string log_path;
    bool log_option_sent = false;
    std::string last_consumed;

    // scheduler
    Rng sched_rng, aux_rng;
    int64_t q_mean_search = 100, q_mean_reader = 4;
    bool pct_flip = false;
    int pct_change_left = 0;
    int64_t starve_left = 0;
    int64_t rr_next = 0;
    bool draining = false;
    uint64_t trace_hash = 0;
    uint64_t sched_sig = 0;

    // oracles / monitors
    bool monitors_on = false;
    bool want_c08 = false;
    Monitors* mon = nullptr;
    void* book = nullptr;  // booksim.cpp
    std::map<std::string, int64_t> counters;
    RunResult result;

    void violation(const std::string& prop, const std::string& cls, const std::string& detail);
    void infra(const std::string& what);
    void trace(uint64_t a, uint64_t b);

    void gui_note_sent(const std::string& line);
    void send_line(const Op& op);
    bool gui_progress();
    bool quiescent() const;
    void run_driver_op(const Op& op);  // driverops.cpp

    void on_reader_idle();
    void on_line_consumed(Task* t, const std::string& line);
    void on_line_emitted(Task* t, const std::string& line);
    void on_spawn(Task* t);
    void on_task_done(Task* t);
    void on_go_entry(Task* t);
    void on_go_phase(Task* t, int point);
    void on_before_bestmove(Task* t);
    void on_stop_exit(Task* t);
    int live_search_tasks() const;

    void check_bestmove(GoRec& g, const std::string& line);
    void check_info(GoRec& g, const std::vector<std::string>& tok, const std::string& line);
    void check_c08_bestmove(GoRec& g);
    void end_of_run_checks();

    bool eligible(const Task& t) const;
    void pick(std::vector<Task*>& el, Task*& out, int64_t& quantum);

    // monitors.cpp
    void setup_monitors();
    void teardown_monitors();
    void monitor_node(Task* t, int id, const engine::Position* pos, const engine::Info* info);
    void monitor_after_undo(Task* t, const engine::Position* pos, const engine::Info* info);
    void monitor_go_entry(Task* t, engine::Search* s);
    void monitor_before_bestmove(Task* t, engine::Search* s);
};

extern World* W;
extern int64_t W_clock_reads;
void clock_read_point();
void resolve_real_sync();
void poison_entry(World* w, uint64_t key, uint64_t eseed, const engine::Position* pos_for_plausible);
std::string book_substitute(World* w, const std::string& line);
void book_check_bestmove(World* w, GoRec& g);
void book_teardown(World* w);
void pristine_server_start_once();

}  // namespace sim

#endif
