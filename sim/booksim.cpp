// C19: simulated file layer for the Polyglot book (read(2) interposed, real
// file underneath) and the book oracles.
#include <fcntl.h>
#include <sys/stat.h>
#include <sys/syscall.h>
#include <unistd.h>

#include <algorithm>
#include <cerrno>
#include <cmath>
#include <cstdio>
#include <cstring>
#include <map>
#include <set>
#include <sstream>
#include <tuple>

#include "polyglot.h"
#include "position.h"
#include "uci.h"

#include "simint.h"
#include "workload.h"

namespace sim
{
uint64_t spec_polyglot_key(const ref::Board& b);  // bookkey.cpp: independent logic over the engine's constant tables

// ------------------------------------------------------- file fault plan --
enum BookFault { BF_NONE = 0, BF_SHORT = 1, BF_EINTR = 2, BF_EIO = 3, BF_ENOENT = 4 };

struct FilePlan
{
    bool active = false;
    dev_t dev = 0;
    ino_t ino = 0;
    int kind = BF_NONE;
    int64_t arg = 0;
    int64_t calls = 0;
    int64_t fired = 0;
};
static FilePlan g_plan;

struct BookRec
{
    uint64_t key;
    uint16_t move;
    uint16_t weight;
};

struct BookState
{
    std::string path;
    std::vector<BookRec> complete;      // complete records of the file image
    std::vector<BookRec> before_error;  // complete records delivered before an injected EIO (== complete otherwise)
    int fault = BF_NONE;
    bool policy_best = false;
    bool loaded = false;
    int files = 0;
    size_t stat_from = 0;  // index of the first go issued under the current book and policy
};

static std::string g_book_dir;

static BookState& book_of(World* w)
{
    if (!w->book) w->book = new BookState();
    return *static_cast<BookState*>(w->book);
}

void book_teardown(World* w)
{
    if (!w->book) return;
    BookState* b = static_cast<BookState*>(w->book);
    if (!b->path.empty()) unlink(b->path.c_str());
    delete b;
    w->book = nullptr;
    g_plan.active = false;
}

}  // namespace sim

// libstdc++'s basic_filebuf reads through read(2); the executable's definition wins over libc's
extern "C" ssize_t read(int fd, void* buf, size_t n)
{
    using namespace sim;
    if (g_plan.active && fd > 2)
    {
        struct stat st;
        if (fstat(fd, &st) == 0 && st.st_dev == g_plan.dev && st.st_ino == g_plan.ino)
        {
            g_plan.calls++;
            off_t off = lseek(fd, 0, SEEK_CUR);
            switch (g_plan.kind)
            {
            case BF_SHORT:
                if (g_plan.arg > 0 && n > size_t(g_plan.arg)) { n = size_t(g_plan.arg); g_plan.fired++; }
                break;
            case BF_EINTR:
                if (g_plan.arg > 0 && (g_plan.calls % g_plan.arg) == 0)
                {
                    g_plan.fired++;
                    errno = EINTR;
                    return -1;
                }
                break;
            case BF_EIO:
                if (off >= 0)
                {
                    if (off >= g_plan.arg)
                    {
                        g_plan.fired++;
                        errno = EIO;
                        return -1;
                    }
                    if (off + off_t(n) > g_plan.arg) n = size_t(g_plan.arg - off);  // deliver up to the bad sector, fail on the next call
                }
                break;
            default: break;
            }
        }
    }
    return syscall(SYS_read, fd, buf, n);
}

namespace sim
{
using namespace engine;

// ----------------------------------------------------------- encodings ----
static uint16_t encode_polyglot_move(const ref::Board& b, const ref::RMove& m, bool castle_as_king_takes_rook)
{
    int from = m.from, to = m.to;
    if (ref::kind_of(b.sq[m.from]) == ref::KIND_K && std::abs(ref::file_of(m.to) - ref::file_of(m.from)) == 2 && castle_as_king_takes_rook)
        to = ref::sq_of(ref::file_of(m.to) == 6 ? 7 : 0, ref::rank_of(m.from));
    int promo = m.promo ? m.promo - 1 : 0;  // KIND_N(2)->1 ... KIND_Q(5)->4
    return uint16_t(promo << 12 | ref::rank_of(from) << 9 | ref::file_of(from) << 6 | ref::rank_of(to) << 3 | ref::file_of(to));
}

// what the record means as a move of position b (UCI text)
static std::string decode_polyglot_move(const ref::Board& b, uint16_t code)
{
    int tf = code & 7, tr = (code >> 3) & 7, ff = (code >> 6) & 7, fr = (code >> 9) & 7, promo = (code >> 12) & 7;
    int from = ref::sq_of(ff, fr), to = ref::sq_of(tf, tr);
    int8_t p = b.sq[from];
    if (ref::kind_of(p) == ref::KIND_K)
    {
        if (from == 4 && p == ref::WK && (to == 7 || to == 6)) return "e1g1";
        if (from == 4 && p == ref::WK && (to == 0 || to == 2)) return "e1c1";
        if (from == 60 && p == ref::BK && (to == 63 || to == 62)) return "e8g8";
        if (from == 60 && p == ref::BK && (to == 56 || to == 58)) return "e8c8";
    }
    ref::RMove m;
    m.from = int8_t(from);
    m.to = int8_t(to);
    m.promo = int8_t(promo ? promo + 1 : 0);
    return m.uci();
}

static std::string hex_of(const std::string& bytes)
{
    static const char* d = "0123456789abcdef";
    std::string o;
    for (unsigned char c : bytes) { o += d[c >> 4]; o += d[c & 15]; }
    return o;
}
static std::string unhex(const std::string& h)
{
    std::string o;
    auto v = [](char c) { return c <= '9' ? c - '0' : c - 'a' + 10; };
    for (size_t i = 0; i + 1 < h.size(); i += 2) o += char(v(h[i]) << 4 | v(h[i + 1]));
    return o;
}

static std::vector<BookRec> parse_image(const std::string& img, size_t upto)
{
    std::vector<BookRec> out;
    for (size_t off = 0; off + 16 <= img.size() && off + 16 <= upto; off += 16)
    {
        BookRec r;
        r.key = 0;
        for (int i = 0; i < 8; ++i) r.key = r.key << 8 | uint8_t(img[off + size_t(i)]);
        r.move = uint16_t(uint8_t(img[off + 8]) << 8 | uint8_t(img[off + 9]));
        r.weight = uint16_t(uint8_t(img[off + 10]) << 8 | uint8_t(img[off + 11]));
        out.push_back(r);
    }
    return out;
}

// --------------------------------------------------------- driver ops -----
// bookfile <fault kind> <fault arg> <truncate at byte or -1> <record spec>;<record spec>;...
//   record spec: F|<fen>|<move code>|<weight>   key = Polyglot key of the position (engine's hash function, C18 is not decided here)
//                K|<hex key>|<move code>|<weight>
void run_book_op(World* w, const std::string& name, const std::string& args)
{
    BookState& bs = book_of(w);
    if (g_book_dir.empty())
    {
        const char* d = getenv("VERIF_DIR");
        g_book_dir = std::string(d ? d : "/verif") + "/build/run/books";
        mkdir((std::string(d ? d : "/verif") + "/build").c_str(), 0755);
        mkdir((std::string(d ? d : "/verif") + "/build/run").c_str(), 0755);
        mkdir(g_book_dir.c_str(), 0755);
    }
    if (name == "bookfile")
    {
        std::istringstream is(args);
        int kind = 0;
        int64_t arg = 0, trunc = -1;
        is >> kind >> arg >> trunc;
        std::string rest;
        std::getline(is, rest);
        if (!rest.empty() && rest[0] == ' ') rest.erase(0, 1);
        std::string img;
        size_t a = 0;
        while (a < rest.size())
        {
            size_t e = rest.find(';', a);
            if (e == std::string::npos) e = rest.size();
            std::string spec = rest.substr(a, e - a);
            a = e + 1;
            if (spec.empty()) continue;
            std::vector<std::string> f;
            size_t p = 0;
            for (;;)
            {
                size_t q = spec.find('|', p);
                if (q == std::string::npos) { f.push_back(spec.substr(p)); break; }
                f.push_back(spec.substr(p, q - p));
                p = q + 1;
            }
            if (f.size() < 4) continue;
            uint64_t key = 0;
            if (f[0] == "F")
            {
                key = spec_polyglot_key(ref::Board(f[1]));
                Position pos(f[1]);
                if (PolyglotBook::hash(pos) != key) w->counters["probe_engine_key_differs_from_spec"]++;
            }
            else key = strtoull(f[1].c_str(), nullptr, 16);
            unsigned mv = unsigned(atoi(f[2].c_str())), wt = unsigned(atoi(f[3].c_str()));
            for (int i = 7; i >= 0; --i) img += char((key >> (8 * i)) & 0xFF);
            img += char(mv >> 8);
            img += char(mv & 0xFF);
            img += char(wt >> 8);
            img += char(wt & 0xFF);
            img += std::string("\0\0\0\0", 4);
        }
        if (trunc >= 0 && size_t(trunc) < img.size()) img.resize(size_t(trunc));
        if (!bs.path.empty()) unlink(bs.path.c_str());
        // every other book of a session is written to the path of the previous one (a GUI's "book.bin" that was replaced on
        // disk); the choice depends on the image only, so that it replays
        bool same_path = bs.files > 0 && (fnv1a(FNV_INIT, img.data(), img.size()) & 1);
        if (same_path) w->counters["book_same_path_rewritten"]++;
        else ++bs.files;
        bs.path = g_book_dir + "/Book_" + std::to_string(getpid()) + "_" + std::to_string(bs.files) + ".BIN";  // mixed case on purpose
        bs.fault = kind;
        bs.loaded = false;
        bs.stat_from = w->gos.size();
        g_plan = FilePlan();
        if (kind == BF_ENOENT)
        {
            unlink(bs.path.c_str());
            bs.complete.clear();
            bs.before_error.clear();
            w->counters["fault_file_enoent"]++;
        }
        else
        {
            FILE* fp = fopen(bs.path.c_str(), "wb");
            if (!fp) { w->infra("cannot create book file " + bs.path); return; }
            if (!img.empty()) fwrite(img.data(), 1, img.size(), fp);
            fclose(fp);
            struct stat st;
            stat(bs.path.c_str(), &st);
            bs.complete = parse_image(img, img.size());
            bs.before_error = bs.complete;
            if (kind == BF_EIO) bs.before_error = parse_image(img, size_t(std::max<int64_t>(0, arg)));
            g_plan.active = kind != BF_NONE;
            g_plan.dev = st.st_dev;
            g_plan.ino = st.st_ino;
            g_plan.kind = kind;
            g_plan.arg = arg;
            if (img.size() % 16 != 0) w->counters["probe_record_straddles_eof"]++;
            if (img.empty()) w->counters["probe_empty_book_file"]++;
        }
        w->counters["book_files"]++;
        return;
    }
    if (name == "c19load")
    {
        // what the engine holds vs what the file says
        w->counters["c19_load_checks"]++;
        if (g_plan.fired > 0)
        {
            const char* nm = bs.fault == BF_SHORT ? "fault_file_short_read" : bs.fault == BF_EINTR ? "fault_file_eintr" : "fault_file_eio";
            w->counters[nm] += g_plan.fired;
        }
        std::multiset<std::tuple<uint64_t, uint32_t, int>> loaded, expect, upper;
        for (auto& kv : w->uci->polyglot._hashmap)
            for (auto& wm : kv.second) loaded.insert({kv.first, wm.first, wm.second});
        auto conv = [](const BookRec& r) {
            int tf = r.move & 7, tr = (r.move >> 3) & 7, ff = (r.move >> 6) & 7, fr = (r.move >> 9) & 7, promo = (r.move >> 12) & 7;
            uint32_t from = uint32_t(fr * 8 + ff), to = uint32_t(tr * 8 + tf);
            uint32_t pk = promo ? uint32_t(promo + 1) : 0;  // engine: KNIGHT = 2 ... QUEEN = 5
            uint32_t mv = pk << 12 | to << 6 | from;
            return std::make_tuple(r.key, mv, int(r.weight));
        };
        for (auto& r : bs.complete) upper.insert(conv(r));
        for (auto& r : bs.before_error) expect.insert(conv(r));
        bs.loaded = true;
        std::string what = "file of " + std::to_string(bs.complete.size()) + " complete records (fault kind " + std::to_string(bs.fault) + ")";
        if (bs.fault == BF_EIO)
        {
            // deliberate, narrow relaxation: after an I/O error the book may be partial or empty, never invented
            for (auto& x : loaded)
                if (expect.count(x) < loaded.count(x))
                {
                    w->violation("C19", "book-holds-record-not-in-file-after-eio", what + ": loaded " + std::to_string(loaded.size()) + " records, one of them not among the " +
                                                                                         std::to_string(expect.size()) + " delivered before the error");
                    break;
                }
            return;
        }
        if (loaded != expect)
        {
            std::string cls = "book-differs-from-file";
            if (loaded.size() > expect.size())
            {
                cls = expect.empty() ? "book-invents-record-for-empty-file" : "book-duplicates-or-invents-record";
            }
            else if (loaded.size() < expect.size()) cls = "book-drops-record";
            w->violation("C19", cls, what + ": engine holds " + std::to_string(loaded.size()) + " records");
        }
        return;
    }
    if (name == "c19gostat")
    {
        // the answers of all `go` commands of this session on one book position, random policy: the engine's own
        // sampler state must advance from request to request, so the answers follow the weights as well
        std::string fen = args;
        ref::Board mb(fen);
        uint64_t key = spec_polyglot_key(mb);
        std::map<std::string, int64_t> weight_of, obs;
        int64_t sum = 0, n = 0;
        for (auto& r : bs.complete)
            if (r.key == key) { weight_of[decode_polyglot_move(mb, r.move)] += r.weight; sum += r.weight; }
        if (weight_of.size() < 2 || sum <= 0 || bs.policy_best || bs.fault == BF_EIO || bs.fault == BF_ENOENT) return;
        std::string k4 = mb.key4();
        // only the requests answered from the book and policy in force now (an earlier book of the session may have known
        // the same position with other weights)
        for (size_t gi = bs.stat_from; gi < w->gos.size(); ++gi)
        {
            auto& g = w->gos[gi];
            if (g.bestmoves > 0 && g.root.key4() == k4 && g.infos.empty()) { obs[g.bestmove]++; n++; }
        }
        if (n < 20) return;
        w->counters["c19_go_distribution_checks"]++;
        auto log_pmf = [](int64_t nn, double p, int64_t k) {
            return std::lgamma(double(nn) + 1) - std::lgamma(double(k) + 1) - std::lgamma(double(nn - k) + 1) + double(k) * std::log(p) + double(nn - k) * std::log1p(-p);
        };
        for (auto& kv : weight_of)
        {
            if (kv.second <= 0 || kv.second >= sum) continue;
            double p = double(kv.second) / double(sum);
            int64_t o = obs.count(kv.first) ? obs[kv.first] : 0;
            double tail = 0;
            if (double(o) >= p * double(n)) { for (int64_t i = o; i <= n; ++i) tail += std::exp(log_pmf(n, p, i)); }
            else { for (int64_t i = o; i >= 0; --i) tail += std::exp(log_pmf(n, p, i)); }
            if (tail < 1e-10)
            {
                std::string dist;
                for (auto& x : weight_of) dist += x.first + ":" + std::to_string(x.second) + "->" + std::to_string(obs.count(x.first) ? obs[x.first] : 0) + " ";
                w->violation("C19", "random-policy-not-proportional-to-weight", fen + " over " + std::to_string(n) + " go commands of one session: " + dist);
                return;
            }
        }
        return;
    }
    if (name == "c19policy")
    {
        bs.policy_best = args == "best";
        bs.stat_from = w->gos.size();
        return;
    }
    if (name == "c19sample")
    {
        // c19sample <n> <seed or -1 for the clock-seeded constructor> <fen>
        std::istringstream is(args);
        int64_t n = 0, seed = 0;
        is >> n >> seed;
        std::string fen;
        std::getline(is, fen);
        if (!fen.empty() && fen[0] == ' ') fen.erase(0, 1);
        if (bs.fault == BF_EIO || bs.fault == BF_ENOENT) return;
        Position pos(fen);
        ref::Board mb(fen);
        uint64_t key = spec_polyglot_key(mb);
        std::map<std::string, int64_t> weight_of;  // by decoded move
        int64_t sum = 0, maxw = -1;
        for (auto& r : bs.complete)
            if (r.key == key)
            {
                weight_of[decode_polyglot_move(mb, r.move)] += r.weight;
                sum += r.weight;
                maxw = std::max<int64_t>(maxw, r.weight);
            }
        if (weight_of.empty()) return;
        FilePlan saved = g_plan;
        g_plan.active = false;  // distribution runs read the file without faults
        PolyglotBook book = seed < 0 ? PolyglotBook(bs.path) : PolyglotBook(bs.path, size_t(seed));
        g_plan = saved;
        if (!book.contains(key))
        {
            w->violation("C19", "book-drops-record", "key of " + fen + " is in the file but not in the loaded book");
            return;
        }
        // best policy
        {
            std::string got = pos.uci(book.get_best_move(key, pos));
            bool ok = false;
            for (auto& r : bs.complete)
                if (r.key == key && r.weight == maxw && decode_polyglot_move(mb, r.move) == got) ok = true;
            w->counters["c19_best_checks"]++;
            if (!ok) w->violation("C19", "best-policy-not-maximal-weight", fen + ": get_best_move gave " + got);
        }
        if (sum <= 0) return;  // all weights zero: sampling undefined by the format
        std::map<std::string, int64_t> obs;
        for (int64_t i = 0; i < n; ++i) obs[pos.uci(book.get_random_move(key, pos))]++;
        w->counters["c19_sample_draws"] += n;
        w->counters["c19_sample_checks"]++;
        std::string dist;
        for (auto& kv : weight_of) dist += kv.first + ":" + std::to_string(kv.second) + "->" + std::to_string(obs.count(kv.first) ? obs[kv.first] : 0) + " ";
        for (auto& kv : obs)
        {
            auto it = weight_of.find(kv.first);
            if (it == weight_of.end())
            {
                w->violation("C19", "random-policy-move-not-recorded", fen + ": sampled " + kv.first + " which no record for this key encodes; " + dist);
                return;
            }
            if (it->second == 0)
            {
                w->counters["c19_zero_weight_sampled"]++;
                w->violation("C19", "random-policy-plays-zero-weight-move", fen + ": " + kv.first + " has weight 0 but was sampled " + std::to_string(kv.second) + "/" + std::to_string(n) + "; " + dist);
                return;
            }
        }
        // proportions.  Two tests, both at a false-alarm level around 1e-10 per test:
        //  (1) every cell: exact binomial tail of the observed count under p = w/sum (valid for any expectation,
        //      in particular for rare moves whose expected count is below one);
        //  (2) chi-square over the cells with expected count >= 10, the rest pooled into one cell (the chi-square
        //      approximation is not valid for small expectations), Wilson-Hilferty bound with z = 6.3.
        auto log_binom_pmf = [](int64_t n, double p, int64_t k) {
            return std::lgamma(double(n) + 1) - std::lgamma(double(k) + 1) - std::lgamma(double(n - k) + 1) + double(k) * std::log(p) + double(n - k) * std::log1p(-p);
        };
        auto tail_ge = [&](int64_t n, double p, int64_t k) {  // P(X >= k)
            if (k <= 0) return 1.0;
            double s = 0;
            for (int64_t i = k; i <= n && i < k + 4000; ++i)
            {
                double t = std::exp(log_binom_pmf(n, p, i));
                s += t;
                if (t < 1e-30 && i > int64_t(double(n) * p)) break;
            }
            return s;
        };
        auto tail_le = [&](int64_t n, double p, int64_t k) {  // P(X <= k)
            double s = 0;
            for (int64_t i = k; i >= 0 && i > k - 4000; --i)
            {
                double t = std::exp(log_binom_pmf(n, p, i));
                s += t;
                if (t < 1e-30 && i < int64_t(double(n) * p)) break;
            }
            return s;
        };
        const double ALPHA = 1e-10;
        double chi = 0;
        int cells = 0, chi_cells = 0;
        bool tail_bad = false;
        double pooled_e = 0, pooled_o = 0;
        std::string worst;
        for (auto& kv : weight_of)
        {
            if (kv.second == 0) continue;
            double p = double(kv.second) / double(sum);
            double e = p * double(n);
            int64_t oi = obs.count(kv.first) ? obs[kv.first] : 0;
            double o = double(oi);
            cells++;
            if (p < 1.0)
            {
                double pt = o >= e ? tail_ge(n, p, oi) : tail_le(n, p, oi);
                if (pt < ALPHA) { tail_bad = true; worst = kv.first; }
            }
            if (e >= 10) { chi += (o - e) * (o - e) / e; chi_cells++; }
            else { pooled_e += e; pooled_o += o; }
            if (kv.second > 0 && kv.second * 20 < sum) w->counters["probe_rare_move_cells"]++;
        }
        if (pooled_e >= 10) { chi += (pooled_o - pooled_e) * (pooled_o - pooled_e) / pooled_e; chi_cells++; }
        int dof = std::max(1, chi_cells - 1);
        double z = 6.3;
        double t = 1.0 - 2.0 / (9.0 * dof) + z * std::sqrt(2.0 / (9.0 * dof));
        double crit = dof * t * t * t + 5.0;
        bool chi_bad = chi_cells >= 2 && chi > crit;
        if (cells >= 2 && (chi_bad || tail_bad))
        {
            char buf[160];
            snprintf(buf, sizeof buf, "chi2=%.1f crit=%.1f dof=%d n=%ld%s%s", chi, crit, dof, (long)n, tail_bad ? " binomial-tail<1e-10 for " : "", tail_bad ? worst.c_str() : "");
            w->violation("C19", "random-policy-not-proportional-to-weight", fen + ": " + dist + buf);
        }
        if (cells >= 2) w->counters["c19_multi_move_distributions"]++;
        return;
    }
    w->infra("unknown book op " + name);
}

std::string book_substitute(World* w, const std::string& line)
{
    std::string l = line;
    size_t p = l.find("@BOOK@");
    if (p != std::string::npos)
    {
        BookState& bs = book_of(w);
        l.replace(p, 6, bs.path.empty() ? "/nonexistent/book.bin" : bs.path);
    }
    return l;
}

// the go path: bestmove taken from the book
void book_check_bestmove(World* w, GoRec& g)
{
    if (!w->book) return;
    BookState& bs = book_of(w);
    if (!bs.loaded || bs.fault == BF_EIO) return;
    uint64_t key = spec_polyglot_key(g.root);
    int64_t maxw = -1, sum = 0;
    bool any = false;
    for (auto& r : bs.complete)
        if (r.key == key) { any = true; maxw = std::max<int64_t>(maxw, r.weight); sum += r.weight; }
    if (!any) return;
    w->counters["c19_go_book_hits"]++;
    if (!g.infos.empty()) w->violation("C19", "book-move-not-played", "'" + g.line + "' in " + g.root.fen() + ": key is in the book but the engine searched");
    bool recorded = false, ok = false;
    ref::Board mb = g.root;
    for (auto& r : bs.complete)
        if (r.key == key && decode_polyglot_move(mb, r.move) == g.bestmove)
        {
            recorded = true;
            if (bs.policy_best ? r.weight == maxw : (sum == 0 || r.weight > 0)) ok = true;
        }
    if (!recorded)
        w->violation("C19", "book-bestmove-not-recorded", "'" + g.line + "' in " + g.root.fen() + " answered " + g.bestmove + ", not a (correctly decoded) record of this key");
    else if (!ok)
        w->violation("C19", bs.policy_best ? "best-policy-not-maximal-weight" : "random-policy-plays-zero-weight-move",
                     "'" + g.line + "' in " + g.root.fen() + " answered " + g.bestmove);
}

// ------------------------------------------------------------ generator ---
Script gen_book_script(uint64_t run_seed, const std::string& tier, Rng& r)
{
    (void)tier;
    Script s;
    s.cfg.run_seed = run_seed;
    s.cfg.prop = "C19";
    s.cfg.node_cost_ns = r.logrange(200, 200000);
    s.cfg.policy = int(r.below(POL_COUNT));
    s.cfg.node_cap = 20000;
    s.cfg.epoch_offset_us = int64_t(r.below(2000000000));
    auto op = [](int kind, const std::string& line) { Op o; o.kind = kind; o.line = line; return o; };

    int books = int(r.range(1, 2));
    for (int bi = 0; bi < books; ++bi)
    {
        // positions the session will visit
        std::vector<PosSpec> ps;
        int np = int(r.range(1, 4));
        for (int i = 0; i < np; ++i)
        {
            if (r.chance(0.35))
            {
                // castling / promotion rich positions
                static const char* sp[] = {"r3k2r/pppq1ppp/2npbn2/2b1p3/2B1P3/2NPBN2/PPPQ1PPP/R3K2R w KQkq - 0 10", "r3k2r/pppq1ppp/2npbn2/2b1p3/2B1P3/2NPBN2/PPPQ1PPP/R3K2R b KQkq - 0 10",
                                           "4k3/1P6/8/8/8/8/6p1/4K2R b K - 0 1", "8/P1k5/8/8/8/8/5Kp1/8 w - - 0 1", "r3k2r/8/8/8/8/8/8/R3K2R w KQkq - 0 1", "r3k2r/8/8/8/8/8/8/R3K2R b KQkq - 0 1"};
                PosSpec p;
                p.start_fen = sp[r.below(6)];
                p.game = ref::Game(ref::Board(p.start_fen));
                ps.push_back(p);
            }
            else
            {
                PosSpec p = gen_position(r, 30, 0);
                if (r.chance(0.35))
                {
                    // finish with a double pawn push: the en-passant part of the key
                    std::vector<ref::RMove> dp;
                    for (auto& m : p.game.cur.legal())
                        if (ref::kind_of(p.game.cur.sq[m.from]) == ref::KIND_P && std::abs(ref::rank_of(m.to) - ref::rank_of(m.from)) == 2) dp.push_back(m);
                    if (!dp.empty())
                    {
                        ref::RMove m = dp[r.below(dp.size())];
                        ref::Undo u = p.game.cur.make(m);
                        bool term = p.game.cur.legal().empty();
                        p.game.cur.unmake(m, u);
                        if (!term) p.game.push(m);
                    }
                }
                ps.push_back(p);
            }
        }
        if (r.chance(0.3))
        {
            PosSpec sp;  // the start position itself
            sp.game = ref::Game(ref::Board());
            ps.push_back(sp);
        }
        // records
        std::string spec;
        int nrec = 0;
        bool empty_file = r.chance(0.1);
        if (!empty_file)
        {
            for (auto& p : ps)
            {
                if (r.chance(0.15)) continue;  // position not in the book
                ref::Board b = p.game.cur;
                auto ms = b.legal();
                if (ms.empty()) continue;
                // prefer special moves
                std::vector<ref::RMove> pick;
                for (auto& m : ms)
                    if (m.promo || (ref::kind_of(b.sq[m.from]) == ref::KIND_K && std::abs(ref::file_of(m.to) - ref::file_of(m.from)) == 2))
                        if (r.chance(0.7)) pick.push_back(m);
                int k = int(r.range(1, 5));
                while (int(pick.size()) < k) pick.push_back(ms[r.below(ms.size())]);
                if (int(pick.size()) > 6) pick.resize(6);
                // weight pattern
                uint64_t pat = r.below(7);
                if (r.chance(0.12))
                {
                    // a key with many records (every legal move, some twice) and tied weights: per-key containers grow
                    // past the sizes small books ever reach
                    pick = ms;
                    size_t want = size_t(r.range(17, 40));
                    while (pick.size() < want) pick.push_back(ms[r.below(ms.size())]);
                    if (pick.size() > 40) pick.resize(40);
                    for (size_t i = pick.size(); i > 1; --i) std::swap(pick[i - 1], pick[r.below(i)]);
                    pat = 1 + r.below(2);
                }
                for (size_t i = 0; i < pick.size(); ++i)
                {
                    int wgt;
                    switch (pat)
                    {
                    case 0: wgt = i == 0 ? 0 : int(r.range(1, 9)); break;          // zero-weight first entry
                    case 1: wgt = 1; break;                                          // equal small weights
                    case 2: wgt = int(r.range(1, 3)); break;
                    case 3: wgt = i + 1 == pick.size() ? 0 : int(r.range(1, 9)); break;  // zero-weight last entry
                    case 4: wgt = i == 0 ? 60000 : 1; break;                        // one dominant
                    case 5: wgt = int(r.logrange(1, 65535)); break;
                    default: wgt = r.chance(0.3) ? 0 : int(r.range(1, 100)); break;
                    }
                    uint16_t code = encode_polyglot_move(b, pick[i], r.chance(0.7));
                    spec += "F|" + b.fen() + "|" + std::to_string(code) + "|" + std::to_string(wgt) + ";";
                    nrec++;
                }
            }
            int pad = int(r.range(0, 6));
            for (int i = 0; i < pad; ++i)
            {
                char buf[64];
                snprintf(buf, sizeof buf, "K|%016lx|%d|%d;", (unsigned long)r.next(), int(r.below(4096)), int(r.below(100)));
                spec += buf;
                nrec++;
            }
        }
        // fault plan
        int kind = BF_NONE;
        int64_t arg = 0, trunc = -1;
        uint64_t fk = r.below(100);
        int64_t size = int64_t(nrec) * 16;
        if (fk < 30) kind = BF_NONE;
        else if (fk < 50) { kind = BF_NONE; if (size > 0) trunc = std::max<int64_t>(0, size - int64_t(r.range(1, std::min<int64_t>(31, size)))); }
        else if (fk < 65) { kind = BF_SHORT; arg = r.range(1, 15); }
        else if (fk < 75) { kind = BF_EINTR; arg = r.range(2, 3); }
        else if (fk < 88) { kind = BF_EIO; arg = size > 0 ? int64_t(r.below(uint64_t(size) + 1)) : 0; }
        else kind = BF_ENOENT;
        if (r.chance(0.3) && kind == BF_SHORT && size > 0) trunc = std::max<int64_t>(0, size - int64_t(r.range(1, std::min<int64_t>(31, size))));
        // the two options in either order: a GUI may send the policy before it names the book, and it may name a new book
        // (or the same path again, rewritten) later in the session without repeating the policy
        bool best = r.chance(0.5);
        bool policy_first = r.chance(0.4);
        if (policy_first)
        {
            s.ops.push_back(op(OP_SEND, std::string("setoption name Polyglot Sample value ") + (best ? "best" : "random")));
            s.ops.push_back(op(OP_AWAIT_IDLE, ""));
            s.ops.push_back(op(OP_CHECK, std::string("c19policy ") + (best ? "best" : "random")));
        }
        s.ops.push_back(op(OP_AWAIT_IDLE, ""));
        s.ops.push_back(op(OP_CHECK, "bookfile " + std::to_string(kind) + " " + std::to_string(arg) + " " + std::to_string(trunc) + " " + spec));
        s.ops.push_back(op(OP_SEND, "setoption name Polyglot Book value @BOOK@"));
        s.ops.push_back(op(OP_AWAIT_IDLE, ""));
        s.ops.push_back(op(OP_CHECK, "c19load"));
        if (!policy_first)
        {
            s.ops.push_back(op(OP_SEND, std::string("setoption name Polyglot Sample value ") + (best ? "best" : "random")));
            s.ops.push_back(op(OP_CHECK, std::string("c19policy ") + (best ? "best" : "random")));
        }
        for (auto& p : ps)
        {
            // three ways to make p the current position: one position command; a position command followed by the
            // engine's `moves` command; ucinewgame (start position) after some other position
            if (!p.game.moves.empty() && r.chance(0.3))
            {
                size_t cut = size_t(r.below(p.game.moves.size()));
                std::string head = p.start_fen.empty() ? "position startpos" : "position fen " + p.start_fen;
                if (cut > 0)
                {
                    head += " moves";
                    for (size_t i = 0; i < cut; ++i) head += " " + p.game.moves[i].uci();
                }
                std::string tail = "moves";
                for (size_t i = cut; i < p.game.moves.size(); ++i) tail += " " + p.game.moves[i].uci();
                s.ops.push_back(op(OP_SEND, head));
                s.ops.push_back(op(OP_SEND, tail));
            }
            else if (p.start_fen.empty() && p.game.moves.empty() && r.chance(0.6))
            {
                s.ops.push_back(op(OP_SEND, "position fen r3k2r/8/8/8/8/8/8/R3K2R w KQkq - 0 1"));
                s.ops.push_back(op(OP_SEND, "ucinewgame"));
            }
            else
                s.ops.push_back(op(OP_SEND, p.command()));
            int gos = int(r.range(1, 3));
            for (int i = 0; i < gos; ++i)
            {
                s.ops.push_back(op(OP_SEND, "go depth " + std::to_string(r.range(1, 3))));
                s.ops.push_back(op(OP_AWAIT_BEST, ""));
            }
            if (!best && r.chance(0.15))
            {
                // the same book position asked many times in one session
                int reps = int(r.range(30, 60));
                for (int i = 0; i < reps; ++i)
                {
                    s.ops.push_back(op(OP_SEND, "go depth 1"));
                    s.ops.push_back(op(OP_AWAIT_BEST, ""));
                }
                s.ops.push_back(op(OP_AWAIT_IDLE, ""));
                s.ops.push_back(op(OP_CHECK, "c19gostat " + p.game.cur.fen()));
            }
            if (r.chance(0.7))
            {
                s.ops.push_back(op(OP_AWAIT_IDLE, ""));
                int64_t seed = r.chance(0.3) ? -1 : int64_t(r.next() >> 2);
                s.ops.push_back(op(OP_CHECK, "c19sample 20000 " + std::to_string(seed) + " " + p.game.cur.fen()));
            }
        }
    }
    return s;
}

}  // namespace sim
