// C19: simulated book file layer and book oracles (placeholder, filled in later)
#include "simint.h"
namespace sim
{
void run_book_op(World* w, const std::string& name, const std::string& args)
{
    (void)args;
    w->infra("book op not implemented: " + name);
}
Script gen_book_script(uint64_t run_seed, const std::string& tier, Rng& r)
{
    (void)tier; (void)r;
    Script s;
    s.cfg.prop = "C19";
    s.cfg.run_seed = run_seed;
    return s;
}
}  // namespace sim
