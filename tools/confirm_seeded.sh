#!/bin/bash
# confirm_seeded.sh <ID> <X>: re-verify a sub-agent's seeded change in its scratch worktree /tmp/mut_<ID>:
#   (1) with the patch: project builds with its own flags, unit tests pass, demo FAILS
#   (2) without the patch: demo PASSES
# then store it under /verif/seeded/<ID>_<X>/ (patch.diff, demonstration, meta.json is written by the caller)
set -u
ID="$1"; X="$2"; wt="${3:-/tmp/mut_$ID}"; src="$wt/out/$X"
cd "$wt" || exit 2
git checkout -q -- engine
git apply "$src/patch.diff" || { echo "CONFIRM $ID/$X: patch does not apply"; exit 1; }
cmake --build _build --target unitTests chessplusplus > /tmp/confirm_$ID$X.log 2>&1 || { echo "CONFIRM $ID/$X: build FAILED with patch"; git checkout -q -- engine; exit 1; }
./_build/unitTests > /tmp/confirm_$ID$X.tests 2>&1; t=$?
tests=$(tail -1 /tmp/confirm_$ID$X.tests)
(cd "$src" && bash ./run_demo.sh > /tmp/confirm_$ID$X.with 2>&1); dw=$?
git checkout -q -- engine
cmake --build _build --target unitTests chessplusplus > /dev/null 2>&1
(cd "$src" && bash ./run_demo.sh > /tmp/confirm_$ID$X.without 2>&1); dwo=$?
echo "CONFIRM $ID/$X: unit tests rc=$t ($tests) demo_with_patch rc=$dw demo_without_patch rc=$dwo"
if [ $t -eq 0 ] && [ $dw -ne 0 ] && [ $dwo -eq 0 ]; then
  dst="/verif/seeded/${ID}_$X"; mkdir -p "$dst"
  cp "$src/patch.diff" "$dst/"; 
  for f in "$src"/*; do b=$(basename "$f"); case "$b" in patch.diff|*.o|demo|demo_bin|*.bin|build*|obj*|engine_*) ;; *) [ -f "$f" ] && [ $(stat -c %s "$f") -lt 200000 ] && cp "$f" "$dst/";; esac; done
  tail -5 /tmp/confirm_$ID$X.with > "$dst/confirm_demo_with_patch.txt"; tail -3 /tmp/confirm_$ID$X.without > "$dst/confirm_demo_without_patch.txt"
  echo OK; exit 0
fi
exit 1
