#!/usr/bin/env python3
"""Writes seeded/<id>/meta.json from the sub-agent's NOTES.md, my confirmation logs and the check output."""
import json, os, re, sys, glob
needs = {
 "C03_A":"capture of a rook on its home corner by a bishop/knight/queen/pawn while its owner still has the right, then undo (search or perft)",
 "C03_B":"a stop / time / node expiry observed while a quiescence child call is active",
 "C04_A":"the side to move has no castling rights left and captures a home-corner rook whose owner still has the right",
 "C04_B":"castling played as the immediate reply to a double pawn push (or first move from a FEN with an ep square)",
 "C05_A":"a poisoned or colliding EXACT table entry for a non-root key, current epoch, node on the PV, depth >= 2",
 "C05_B":"stop consumed after go_command built the Search but before the search thread reached init_search(), under a limit only stop can end",
 "C06_A":"stop lands between the caller's read of stop_search and the store inside check_limits() at a poll that reaches the clock",
 "C06_B":"previous search ends by itself; next position/go handled before the old thread runs its last statement; later stop ignored",
 "C07_A":"first occurrence of the recurring position sits at half-move clock 0 (right after a pawn move / capture / game start)",
 "C07_B":"castling while a1 is occupied, then enough reversible plies for the true clock to reach 100",
 "C08_B":"half-move clock exactly 99 and a quiet, non-pawn mating move",
 "C09_A":"an exact current-epoch root entry from an earlier go of the same position, then go ... searchmoves excluding the stored move, no position command between",
 "C09_B":"go carrying depth d together with movetime or a non-zero clock for the side to move",
 "C10_A":"position fen with half-move clock >= 1 (single history entry) or a null move in search; only visible with strict array bounds checking",
 "C10_B":"go infinite left alone for more than 40 iterations (KPK, dead draws) before stop",
 "C14_A":"one evaluator scores two positions with the same pawns and different king distance, reduced material, not a specialised endgame",
 "C14_B":"lone king against >= ~25041 of endgame material (nine queens, eight queens + two rooks, ...)",
 "C19_A":"random policy and a small weight sum (error is 1/(sum+1)); zero-weight move must be the last record of its key",
 "C19_B":"a record with weight >= 0x8000",
 "C03_C":"a null move (null-move pruning in search) made and taken back at half-move clock >= 99",
 "C03_D":"a promotion to a kind the side already owns, an older piece of that kind captured and restored inside the subtree, then the promotion undone (piece list order)",
 "C04_C":"do_null_move() on a position whose en-passant square is set (null-move pruning at a node reached by a double pawn push)",
 "C04_D":"a double pawn push on the h-file (or a FEN with en-passant square h3/h6); the defect is inside zobrist::init(), which the simulator only runs for real in zobrist mode 4",
 "C05_C":"the PV of an iteration ends in a terminal node reached by search(): a mating move, stalemate, repetition, 50-move rule or bare kings",
 "C05_D":"search interrupted (stop/time/nodes) at an odd ply while the best move of the last completed iteration is castling",
 "C06_C":"a stop that arrives before depth 1 completes (the fallback branch prints with std::endl instead of sync_endl and keeps the output lock)",
 "C06_D":"a stop that arrives while the search is inside a huge quiescence subtree (many heavy pieces attacking each other)",
 "C07_C":"a single slider check with no king flight, no capture and no other interposition, parried only by a two-square pawn push",
 "C07_D":"a promoting pawn captures an unmoved corner rook; later the same position recurs after that side's king has moved away and back",
 "C08_C":"zugzwang with a mating threat two plies below the root for a side that still has a piece, remaining depth > 4, non-PV node (K+N v K+P, depth 7-9)",
 "C08_D":"a double-step pawn check whose only evasion (or the mating move) is the en-passant capture of that pawn",
 "C09_C":"an under-promotion in the searchmoves list whose queen twin is not also listed",
 "C09_D":"two go commands on the same position with no position/moves/ucinewgame in between, the first one completed an iteration",
 "C10_C":"a node with >= 64 legal moves, remaining depth > 3 and a late quiet move",
 "C10_D":"castling legal somewhere in the search tree and not the PV/TT/killer move; only visible to an uninitialised-value detector (valgrind)",
 "C14_C":"an earlier evaluation in which a piece shielded its king from an enemy slider, then a position where the opponent has no sliders and an own piece stands on that square",
 "C14_D":"K+B+pawn(s) v K+B, not a hard-coded fortress, with the pawnless side to move",
 "C19_C":"a book file in which one key's records are not adjacent (unsorted / concatenated books)",
 "C19_D":"position ..., then `moves ...` or `ucinewgame`, then go with no new position command (stale cached book key)",
 "C19_bookE":"a double push on the a- or h-file while the side to move has a pawn on the opposite edge file one rank off (square arithmetic wraps around the board edge in the book key)",
 "C19_bookF":"a go on a position outside the book, then a go on a book position, with no ucinewgame or re-set of the book option in between (out-of-book latch)",
 "C19_bookG":"setting the Polyglot Book option a second time in one process (records of the previous file are kept)",
 "C05_searchE":"a pv with a castling move of the root side's opponent (2nd, 4th ... move): printed with the root position's side to move",
 "C09_searchF":"earlier go left a root table entry; later go ... searchmoves excludes that move; stop lands before iteration 1 completes",
 "C10_searchG":"clock-based go with ply + 2*(movestogo-1) >= 900: FEN with a move number around 460+, or a 700-ply game with movestogo 120",
 "C14_evalE":"a heavy-piece-v-bare-king evaluation followed by a KPK/KPsK/KNNK/KNBK/KBPsK position of the same strong colour (process-wide memo of the last matching endgame evaluator)",
 "C14_evalF":"a revisited pawn structure with a different structure evaluated in between and a minor piece on a square that is an outpost under only one of them",
 "C10_evalG":"rook-v-pawn endgames of both colours in one process (function-local static latched by the first colour; reads a piece-list slot of a side without pawns). Labelled C10 by its author (ASan SEGV with poisoned memory); with the harness's zero-filled heap it shows as a C14 violation (value differs from a pristine process)",
 "C05_positionE":"a rook or queen plays e1g1/e1c1/e8g8/e8c8 (own king elsewhere) while the opponent still holds that wing's castling right",
 "C07_positionF":"any copy of a Position (the search's copy on every go) or a second position command: history copied with a byte count instead of an entry count",
 "C04_positionG":"more than ~1e5 distinct positions in one process, and only with the engine's real zobrist::init() (keys truncated to 32 bits)",
 "C06_uciE":"stop handled before the new search thread has constructed the Search object (also an unsynchronised pointer)",
 "C05_uciF":"after ucinewgame the first position command equals or extends the last one of the previous game (cached position text)",
 "C10_uciG":"every go without a mate token branches on the uninitialised Limits::mate (valgrind; natively sometimes ignores the depth limit)",
 "C06_ttE":"stop or quit while a search is running: Search::stop() bumps the table epoch that the search thread reads (data race)",
 "C05_ttF":"a PV node in check with remaining depth > 5 and no table entry: e.g. an in-check root with searchmoves (unbounded recursion, SIGSEGV)",
 "C10_ttG":"first probe of any table slot reads indeterminate key/epoch (only visible to an uninitialised-value detector; a zero-filled heap hides it)",
}
for d in sorted(glob.glob('/verif/seeded/*/')):
    n = os.path.basename(d.rstrip('/'))
    prop = n.split('_')[0]
    check_prop = open(d + 'CHECK_WITH').read().strip() if os.path.exists(d + 'CHECK_WITH') else prop
    out = open(d + 'check_output.txt').read() if os.path.exists(d + 'check_output.txt') else ''
    classes = re.findall(r'^violation class=(\S+) (?:runs=(\d+))?', out, re.M)
    classes = [(c, r or '1') for c, r in classes]
    totals = re.findall(r'^(C\d\d) (?:quick|sweep) variant=(\S+) .*?runs=(\d+) finished=(\d+)', out, re.M)
    ex = re.findall(r'^exit=(\d+)', out, re.M)
    meta = {
        "id": n,
        "breaks_property": prop,
        "origin": "independent sub-agent given only the property text and a scratch worktree (round %d)" % (1 if n[-1] in "AB" and "_" in n and len(n.split("_")[1]) == 1 else (2 if len(n.split("_")[1]) == 1 else 3)),
        "needs_to_manifest": needs.get(n, ""),
        "confirmed_by_me": {
            "how": "tools/confirm_seeded.sh in the scratch worktree: with the patch the project builds with -Wall -Wextra -pedantic -Werror and ./_build/unitTests passes (47 tests); the demonstration (run_demo.sh) fails with the patch and passes without",
            "demo_with_patch": open(d + 'confirm_demo_with_patch.txt').read()[-400:] if os.path.exists(d + 'confirm_demo_with_patch.txt') else "",
            "demo_without_patch": open(d + 'confirm_demo_without_patch.txt').read()[-300:] if os.path.exists(d + 'confirm_demo_without_patch.txt') else "",
        },
        "registered_check": {
            "command": "git -C /repo apply patch.diff && ./check.sh %s quick ; git -C /repo checkout -- ." % check_prop,
            "exit": int(ex[-1]) if ex else None,
            "violation_classes": [{"class": c, "runs": int(r)} for c, r in classes],
            "batches": [{"variant": v, "runs": int(r), "finished": int(f)} for _, v, r, f in totals],
        },
        "files": sorted(os.listdir(d)),
    }
    json.dump(meta, open(d + 'meta.json', 'w'), indent=1)
    print(n, meta["registered_check"]["exit"], [c for c, _ in classes])
