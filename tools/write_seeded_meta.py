#!/usr/bin/env python3
"""Writes seeded/<id>/meta.json from the sub-agent's NOTES.md, my confirmation logs and the check output."""
import json, os, re, sys, glob
needs = {
 "C03_A":"capture of a rook on its home corner by a bishop/knight/queen/pawn while its owner still has the right, then undo (search or perft)",
 "C03_B":"a stop / time / node expiry observed while a quiescence child call is active",
 "C04_A":"the side to move has no castling rights left and captures a home-corner rook whose owner still has the right",
 "C04_B":"castling played as the immediate reply to a double pawn push (or first move from a FEN with an ep square)",
 "C05_A":"a poisoned or colliding EXACT table entry for a non-root key, current epoch, node on the PV, depth >= 2",
 "C05_B":"stop consumed after go_command built the Search but before the search thread reached init_search(), under a limit only stop can end",
 "C06_A":"stop lands between the caller's read of stop_search and the store inside check_limits() at a poll that reaches the clock",
 "C06_B":"previous search ends by itself; next position/go handled before the old thread runs its last statement; later stop ignored",
 "C07_A":"first occurrence of the recurring position sits at half-move clock 0 (right after a pawn move / capture / game start)",
 "C07_B":"castling while a1 is occupied, then enough reversible plies for the true clock to reach 100",
 "C08_B":"half-move clock exactly 99 and a quiet, non-pawn mating move",
 "C09_A":"an exact current-epoch root entry from an earlier go of the same position, then go ... searchmoves excluding the stored move, no position command between",
 "C09_B":"go carrying depth d together with movetime or a non-zero clock for the side to move",
 "C10_A":"position fen with half-move clock >= 1 (single history entry) or a null move in search; only visible with strict array bounds checking",
 "C10_B":"go infinite left alone for more than 40 iterations (KPK, dead draws) before stop",
 "C14_A":"one evaluator scores two positions with the same pawns and different king distance, reduced material, not a specialised endgame",
 "C14_B":"lone king against >= ~25041 of endgame material (nine queens, eight queens + two rooks, ...)",
 "C19_A":"random policy and a small weight sum (error is 1/(sum+1)); zero-weight move must be the last record of its key",
 "C19_B":"a record with weight >= 0x8000",
}
for d in sorted(glob.glob('/verif/seeded/*/')):
    n = os.path.basename(d.rstrip('/'))
    prop = n.split('_')[0]
    out = open(d + 'check_output.txt').read() if os.path.exists(d + 'check_output.txt') else ''
    classes = re.findall(r'^violation class=(\S+) runs=(\d+)', out, re.M)
    totals = re.findall(r'^(C\d\d) (?:quick|sweep) variant=(\S+) .*?runs=(\d+) finished=(\d+)', out, re.M)
    m = re.search(r'exit=(\d+)', out)
    meta = {
        "id": n,
        "breaks_property": prop,
        "origin": "independent sub-agent given only the property text and a scratch worktree (round 1)",
        "needs_to_manifest": needs.get(n, ""),
        "confirmed_by_me": {
            "how": "tools/confirm_seeded.sh in the scratch worktree: with the patch the project builds with -Wall -Wextra -pedantic -Werror and ./_build/unitTests passes (47 tests); the demonstration (run_demo.sh) fails with the patch and passes without",
            "demo_with_patch": open(d + 'confirm_demo_with_patch.txt').read()[-400:] if os.path.exists(d + 'confirm_demo_with_patch.txt') else "",
            "demo_without_patch": open(d + 'confirm_demo_without_patch.txt').read()[-300:] if os.path.exists(d + 'confirm_demo_without_patch.txt') else "",
        },
        "registered_check": {
            "command": "git -C /repo apply patch.diff && ./check.sh %s quick ; git -C /repo checkout -- ." % prop,
            "exit": int(m.group(1)) if m else None,
            "violation_classes": [{"class": c, "runs": int(r)} for c, r in classes],
            "batches": [{"variant": v, "runs": int(r), "finished": int(f)} for _, v, r, f in totals],
        },
        "files": sorted(os.listdir(d)),
    }
    json.dump(meta, open(d + 'meta.json', 'w'), indent=1)
    print(n, meta["registered_check"]["exit"], [c for c, _ in classes])
