#!/bin/bash
# run_patch_scratch.sh <patch.diff> <property> [runs] [variants...]: apply a seeded change in a scratch worktree of /repo
# (never /repo itself), build the simulator variants there and run the property's batch.  Cleans up after itself.
set -u
patch="$(readlink -f "$1")"; prop="$2"; runs="${3:-1000}"; shift 3 2>/dev/null; variants="${*:-plain}"
wt="/tmp/ws_$$"; bd="/tmp/ws_$$_build"
git -C /repo worktree add -q "$wt" HEAD || exit 2
trap 'git -C /repo worktree remove --force "$wt" >/dev/null 2>&1; rm -rf "$bd"' EXIT
git -C "$wt" apply "$patch" || { echo "patch does not apply"; exit 2; }
cd /verif
rc=0
for v in $variants; do
  REPO="$wt" OUT_DIR="$bd/$v" ./build.sh "$v" > "/tmp/ws_$$_build.log" 2>&1 || { echo "build failed"; tail -20 "/tmp/ws_$$_build.log"; exit 2; }
  VERIF_DIR=/tmp/ws_$$_verif; mkdir -p $VERIF_DIR; cp /verif/known_findings.tsv $VERIF_DIR/
  VERIF_DIR=$VERIF_DIR "$bd/$v/vsim" --prop "$prop" --runs "$runs" --evidence /tmp/ws_$$_ev.json 2>&1 | grep -E "^violation|VIOLATION|KNOWN-FINDING|INFRA|^  |^C[0-9][0-9] (quick|thorough|sweep)" | cut -c1-330 | head -30
  r=${PIPESTATUS[0]}; [ $r -ne 0 ] && rc=$r
  rm -rf $VERIF_DIR /tmp/ws_$$_ev.json
done
rm -f "/tmp/ws_$$_build.log"
echo "exit=$rc"
