#!/bin/bash
set -u
A="$1"; X="$2"; wt="/tmp/mut7_$A"; src="$wt/out/$X"
P=$(tr -d ' \n' < "$src/PROPERTY" | cut -c1-3)
cd "$wt" || exit 2
git checkout -q -- engine
git apply "$src/patch.diff" || { echo "CONFIRM $A/$X: patch does not apply"; exit 1; }
cmake --build _build --target unitTests chessplusplus > /tmp/confirm7_$A$X.log 2>&1 || { echo "CONFIRM $A/$X: build FAILED with patch"; git checkout -q -- engine; exit 1; }
./_build/unitTests > /tmp/confirm7_$A$X.tests 2>&1; t=$?
tests=$(tail -1 /tmp/confirm7_$A$X.tests)
(cd "$src" && bash ./run_demo.sh > /tmp/confirm7_$A$X.with 2>&1); dw=$?
git checkout -q -- engine
cmake --build _build --target unitTests chessplusplus > /dev/null 2>&1
(cd "$src" && bash ./run_demo.sh > /tmp/confirm7_$A$X.without 2>&1); dwo=$?
echo "CONFIRM $A/$X ($P): unit tests rc=$t ($tests) demo_with_patch rc=$dw demo_without_patch rc=$dwo"
if [ $t -eq 0 ] && [ $dw -ne 0 ] && [ $dwo -eq 0 ]; then
  dst="/verif/seeded/${P}_r7${A}$X"; mkdir -p "$dst"
  cp "$src/patch.diff" "$dst/"
  for f in "$src"/*; do [ -f "$f" ] || continue; b=$(basename "$f"); case "$b" in patch.diff|*.o|demo|demo_bin|*.bin|*.log) ;; *) [ $(stat -c %s "$f") -lt 200000 ] && cp "$f" "$dst/";; esac; done
  tail -5 /tmp/confirm7_$A$X.with > "$dst/confirm_demo_with_patch.txt"; tail -3 /tmp/confirm7_$A$X.without > "$dst/confirm_demo_without_patch.txt"
  echo OK; exit 0
fi
exit 1
