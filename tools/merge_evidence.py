#!/usr/bin/env python3
"""Merge the per-variant evidence files written by vsim into evidence/<id>.json (sums measured counts,
keeps per-variant detail)."""
import json, sys

prop, tier, seed, out = sys.argv[1], sys.argv[2], int(sys.argv[3]), sys.argv[4]
parts = []
for p in sys.argv[5:]:
    try:
        parts.append(json.load(open(p)))
    except Exception as e:  # a variant that produced no evidence is an infrastructure error
        print("INFRA: missing evidence part %s: %s" % (p, e))
        sys.exit(2)
if not parts:
    sys.exit(2)
base = parts[0]
cov = base["coverage"]
merged = {
    "property_id": prop,
    "tier": "thorough" if tier == "thorough" else "quick",
    "seed": seed,
    "level": "exploration",
    "wall_s": sum(p["wall_s"] for p in parts),
    "violations": sum(p.get("violations", 0) for p in parts),
    "coverage": {
        "evaluations": sum(p["coverage"]["evaluations"] for p in parts),
        "distinct_nontrivial": sum(p["coverage"]["distinct_nontrivial"] for p in parts),
        "rule": cov["rule"] + "; counts are summed over the build variants listed in 'variants' (same generator, different seeds per variant are not needed: distinctness is counted per variant because the sanitizer variants execute different machine code)",
        "samples": cov["samples"],
        "variants": {},
        "real_components": cov["real_components"],
        "stub_components": cov["stub_components"],
    },
    "assumptions": base["assumptions"],
}
tot_runs = 0
for p in parts:
    c = p["coverage"]
    v = c["variant"]
    merged["coverage"]["variants"][v] = {k: c[k] for k in c if k not in ("samples", "rule", "real_components", "stub_components")}
    tot_runs += c["evaluations"]
wall = merged["wall_s"]
merged["coverage"]["runs_per_hour"] = int(tot_runs * 3600 / wall) if wall > 0 else 0
merged["coverage"]["sim_time_ms"] = sum(p["coverage"]["sim_time_ms"] for p in parts)
merged["coverage"]["node_visits"] = sum(p["coverage"]["node_visits"] for p in parts)
fired = {}
for p in parts:
    for k, v in p["coverage"]["counters"].items():
        if k.startswith("fault_") or k.startswith("window_") or k.startswith("probe_") or k in ("gui_impatient_stop", "ucinewgame", "clock_jumps"):
            fired[k] = fired.get(k, 0) + v
merged["coverage"]["faults_fired"] = fired
try:
    import re
    t = open("build/ev/determinism.txt").read()
    mm = re.search(r"determinism prop=(\S+) variant=(\S+) seeds=(\d+) compared=(\d+) mismatches=(\d+)", t)
    if mm:
        merged["coverage"]["determinism"] = {"variant": mm.group(2), "seeds_run_twice": int(mm.group(3)), "compared": int(mm.group(4)), "mismatches": int(mm.group(5)),
                                             "how": "every seed executed twice in fresh worker processes (16-way and 3-way split); event-trace hash, step count and node count must agree"}
except Exception:
    pass
if prop == "C10":
    try:
        merged["coverage"]["valgrind"] = json.load(open("build/ev/valgrind.json"))
    except Exception:
        pass
json.dump(merged, open(out, "w"), indent=1)
