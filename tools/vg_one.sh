#!/bin/bash
# vg_one.sh <prop-workload> <run seed> [variant=vg] [max nodes=300000]: one simulated run under valgrind memcheck
cd "$(dirname "$0")/.."
prop="$1"; rs="$2"; V="${3:-vg}"; MAXN="${4:-300000}"
maxf=$(./build/$V/vsim --prop $prop --print "$rs" | awk -F'[ \t]' '/^op/ {if (NF>m) m=NF} END {print m+0}')
if [ "$maxf" -gt 780 ]; then echo "VG-SKIP $prop $rs"; exit 0; fi
# memcheck costs about 50x: runs of more than 300k node visits (measured natively first) are left to the other variants
nodes=$(./build/$V/vsim --prop $prop --show "$rs" 2>/dev/null | grep -o "nodes=[0-9]*" | head -1 | cut -d= -f2)
if [ "${nodes:-0}" -gt "$MAXN" ]; then echo "VG-SKIP $prop $rs"; exit 0; fi
out=$(valgrind -q --error-exitcode=97 --trace-children=yes ./build/$V/vsim --prop $prop --show "$rs" 2>&1)
if echo "$out" | grep -q "uninitialised\|Invalid read\|Invalid write\|Invalid free\|Mismatched free"; then
  mkdir -p replays/C10
  echo "$out" | grep -v "^op\|^cfg\|^fault" | head -80 > "replays/C10/valgrind_${V}_${prop}_$rs.txt"
  echo "violation class=valgrind prop-workload=$prop seed=$rs"; echo "$out" | grep -A14 "uninitialised\|Invalid" | head -40
  echo "VIOLATION property=C10 replay=$(pwd)/replays/C10/valgrind_${V}_${prop}_$rs.txt"
else
  echo "VG-OK $prop $rs"
fi
