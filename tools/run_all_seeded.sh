#!/bin/bash
cd /verif
for d in seeded/*/; do
  n=$(basename $d); prop=${n%%_*}; [ -f $d/CHECK_WITH ] && prop=$(cat $d/CHECK_WITH)
  [ -n "${ONLY:-}" ] && ! echo "$n" | grep -qE "$ONLY" && continue
  ./tools/try_mutant.sh $d/patch.diff $prop quick > $d/check_output.txt 2>&1
  echo "$n $(tail -1 $d/check_output.txt)"
done
# restore caches for the unchanged tree
./build.sh plain; ./build.sh asan; ./build.sh tsan
echo ALLDONE
