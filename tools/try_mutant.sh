#!/bin/bash
# try_mutant.sh <patch.diff> <property> [tier]: apply a seeded change to /repo, run that property's check, undo the change.
# prints the check's tail and its exit code.  Never leaves /repo modified; the evidence file of the property (which the
# check rewrites) is put back afterwards, so that /verif/evidence keeps describing the unchanged tree.
set -u
patch="$(readlink -f "$1")"; prop="$2"; tier="${3:-quick}"
cd /repo || exit 2
git diff --quiet || { echo "/repo has uncommitted changes"; exit 2; }
git apply "$patch" || { echo "patch does not apply"; exit 2; }
keep="$(mktemp)"; cp "/verif/evidence/$prop.json" "$keep" 2>/dev/null
trap 'git -C /repo checkout -- . ; [ -s "$keep" ] && cp "$keep" "/verif/evidence/$prop.json"; rm -f "$keep"' EXIT
cd /verif && ./check.sh "$prop" "$tier" 2>&1 | grep -E "^violation|VIOLATION|KNOWN-FINDING|INFRA|^  |^C[0-9][0-9] (quick|thorough|sweep)" | cut -c1-400 | head -40
echo "exit=${PIPESTATUS[0]}"
