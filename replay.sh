#!/bin/bash
# replay.sh <replay file>: re-executes a recorded violation in a fresh process with the build variant it was found in.
# exit 1 + "VIOLATION property=<id> replay=<path>" if it reproduces, 0 if it does not, 2 on infrastructure errors.
cd "$(dirname "$0")"
f="${1:?replay file}"
v=$(grep -m1 '^meta' "$f" | tr '\t' '\n' | sed -n 's/^variant=//p')
[ -n "$v" ] || v=plain
./build.sh "$v" > /dev/null 2>&1 || { echo "INFRA: build failed"; exit 2; }
VERIF_DIR="$(pwd)" exec "./build/$v/vsim" --replay "$f"
