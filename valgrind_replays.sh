#!/bin/bash
# valgrind (memcheck) over single simulated runs of the 'vg' build (g++ -O1, no -march=native): uninitialised values /
# invalid accesses in engine code that ASan/UBSan do not see.  usage: valgrind_replays.sh <seed> <n>
# Sessions whose game is longer than 780 plies (slow replays) or that visit more than 300k nodes are skipped.
cd "$(dirname "$0")"
SEED="${1:-1}"; N="${2:-20}"
list=""
for i in $(seq 1 "$N"); do
  rs=$(( (SEED * 1000003 + i * 7919) % 2147483647 ))
  list="$list C10 $rs C05 $rs"
done
out=$(echo $list | xargs -P 16 -n 2 ./tools/vg_one.sh)
# second pass, engine compiled at -O0 (build variant vg0), over the short sessions of the same list (at most 60k node visits)
if [ -x build/vg0/vsim ]; then
  out0=$(echo $list | xargs -P 16 -n 2 sh -c './tools/vg_one.sh "$0" "$1" vg0 60000')
  ok0=$(echo "$out0" | grep -c "^VG-OK")
  echo "valgrind (engine at -O0): $ok0 simulated runs clean"
  out="$out
$(echo "$out0" | grep -v "^VG-SKIP")"
fi
echo "$out" | grep -v "^VG-"
ok=$(echo "$out" | grep -c "^VG-OK"); sk=$(echo "$out" | grep -c "^VG-SKIP")
echo "valgrind: $ok simulated runs clean, $sk skipped (game longer than 780 plies or more than 300k node visits)"
echo "{\"valgrind_runs_clean\": $ok, \"valgrind_runs_skipped\": $sk}" > build/ev/valgrind.json
if echo "$out" | grep -q "^VIOLATION"; then exit 1; fi
[ "$ok" -gt 0 ] || exit 2
exit 0
