#!/bin/bash
# valgrind (memcheck) over a few single simulated runs of the plain binary: uninitialised values / invalid accesses
# in engine code that ASan/UBSan do not see.  usage: valgrind_replays.sh <seed> <n>
cd "$(dirname "$0")"
SEED="${1:-1}"; N="${2:-20}"
rc=0
for i in $(seq 1 "$N"); do
  rs=$(( (SEED * 1000003 + i * 7919) % 2147483647 ))
  out=$(VSIM_INPROC=1 valgrind -q --error-exitcode=97 --trace-children=yes --child-silent-after-fork=no ./build/plain/vsim --prop C10 --show "$rs" 2>&1)
  st=$?
  if echo "$out" | grep -q "== .*\(uninitialised\|Invalid read\|Invalid write\)"; then
    # the 800-ply overflow is a recorded finding; anything else is a violation
    if echo "$out" | grep -q "do_move"; then echo "KNOWN-FINDING: property=C10 valgrind report in Position::do_move (history overflow) seed $rs"; continue; fi
    mkdir -p replays/C10
    echo "$out" | head -60 > "replays/C10/valgrind_$rs.txt"
    echo "violation class=valgrind seed=$rs"; echo "$out" | grep -A12 "== .*\(uninitialised\|Invalid\)" | head -40
    echo "VIOLATION property=C10 replay=$(pwd)/replays/C10/valgrind_$rs.txt"
    rc=1
  fi
done
exit $rc
