#!/bin/bash
# build.sh <variant>: builds /verif/build/<variant>/vsim from /repo's current working tree.
# Rebuilds whenever the content of the engine sources, the harness sources or the flags changed.
set -euo pipefail
VARIANT="${1:-plain}"
REPO="${REPO:-/repo}"
VERIF="$(cd "$(dirname "$0")" && pwd)"
OUT="${OUT_DIR:-$VERIF/build/$VARIANT}"
mkdir -p "$OUT/gen" "$OUT/eng" "$OUT/sim"

COMMON_DEFS="-DNDEBUG -DLOG_LEVEL=0 -DCHESSPLUSPLUS_VERIF -DCHESSPLUSPLUS_VERIF_TT_SIZE=${VERIF_TT_SIZE:-65536} -DCHESSPLUSPLUS_VERIF_PAWN_SIZE=${VERIF_PAWN_SIZE:-1024}"
INC="-I$REPO/engine -I$OUT/gen -I$VERIF/sim"
WRAP="-Wl,--wrap=_ZNSt6chrono3_V212steady_clock3nowEv -Wl,--wrap=_ZNSt6chrono3_V212system_clock3nowEv -Wl,--wrap=_ZNSt13random_device9_M_getvalEv"
case "$VARIANT" in
  plain)
    CXX=g++
    ENG_FLAGS="-std=c++20 -Ofast -march=native -mtune=native -g1 $COMMON_DEFS"
    SIM_FLAGS="-std=c++20 -O2 -g1 -fno-access-control $COMMON_DEFS -DVERIF_VARIANT_NAME=plain"
    LD_FLAGS="$WRAP -pthread -ldl"
    ;;
  vg)
    # for valgrind: no -march=native (memcheck does not know every host instruction)
    CXX=g++
    ENG_FLAGS="-std=c++20 -O1 -g $COMMON_DEFS"
    SIM_FLAGS="-std=c++20 -O1 -g -fno-access-control $COMMON_DEFS -DVERIF_VG -DVERIF_VARIANT_NAME=vg"
    LD_FLAGS="$WRAP -pthread -ldl"
    ;;
  vg0)
    # as vg, with the engine compiled without optimisation: at -O1 a branch on an indeterminate value can become a
    # conditional move, which memcheck does not report; at -O0 every such test is a conditional jump
    CXX=g++
    ENG_FLAGS="-std=c++20 -O0 -g $COMMON_DEFS"
    SIM_FLAGS="-std=c++20 -O1 -g -fno-access-control $COMMON_DEFS -DVERIF_VG -DVERIF_VARIANT_NAME=vg"
    LD_FLAGS="$WRAP -pthread -ldl"
    ;;
  asan)
    CXX=clang++
    SAN="-fsanitize=address,bounds,null -fno-sanitize-recover=bounds,null -fno-omit-frame-pointer"
    ENG_FLAGS="-std=c++20 -O1 -g $SAN -D_GLIBCXX_ASSERTIONS $COMMON_DEFS"
    SIM_FLAGS="-std=c++20 -O1 -g $SAN -fno-access-control $COMMON_DEFS -DVERIF_ASAN -DVERIF_VARIANT_NAME=asan"
    LD_FLAGS="$SAN $WRAP -pthread -ldl"
    ;;
  tsan)
    CXX=clang++
    ENG_FLAGS="-std=c++20 -O1 -g -fsanitize=thread -fno-omit-frame-pointer $COMMON_DEFS"
    SIM_FLAGS="-std=c++20 -O1 -g -fno-access-control $COMMON_DEFS -DVERIF_TSAN -DVERIF_VARIANT_NAME=tsan"
    LD_FLAGS="-fsanitize=thread -rdynamic $WRAP -pthread -ldl"
    ;;
  *) echo "unknown variant $VARIANT" >&2; exit 2;;
esac

cat > "$OUT/gen/chessplusplusConfig.h.new" <<H
#define ENGINE_NAME "chessplusplus"
#define CHESSPLUSPLUS_VERSION "verif"
H
cmp -s "$OUT/gen/chessplusplusConfig.h.new" "$OUT/gen/chessplusplusConfig.h" 2>/dev/null || mv "$OUT/gen/chessplusplusConfig.h.new" "$OUT/gen/chessplusplusConfig.h"
rm -f "$OUT/gen/chessplusplusConfig.h.new"

ENG_SRCS=$(ls "$REPO"/engine/*.cpp | grep -v '/main.cpp$')
SIM_SRCS=$(ls "$VERIF"/sim/*.cpp)

ENG_HASH=$( (echo "$CXX $ENG_FLAGS"; cat "$REPO"/engine/*.cpp "$REPO"/engine/*.h) | sha256sum | cut -d' ' -f1)
SIM_HASH=$( (echo "$CXX $SIM_FLAGS $LD_FLAGS $ENG_HASH"; cat "$VERIF"/sim/*.cpp "$VERIF"/sim/*.h) | sha256sum | cut -d' ' -f1)

if [ -x "$OUT/vsim" ] && [ "$(cat "$OUT/stamp" 2>/dev/null)" = "$ENG_HASH $SIM_HASH" ]; then
  exit 0
fi

compile_one() { # src objdir flags...
  local src="$1" objdir="$2"; shift 2
  local obj="$objdir/$(basename "${src%.cpp}").o"
  $CXX "$@" -c "$src" -o "$obj"
}
export -f compile_one
export CXX

if [ "$(cat "$OUT/eng.stamp" 2>/dev/null)" != "$ENG_HASH" ]; then
  rm -f "$OUT"/eng/*.o
  echo "$ENG_SRCS" | xargs -P 16 -I{} bash -c "compile_one {} $OUT/eng $ENG_FLAGS $INC" 
  echo "$ENG_HASH" > "$OUT/eng.stamp"
fi
rm -f "$OUT"/sim/*.o
echo "$SIM_SRCS" | xargs -P 16 -I{} bash -c "compile_one {} $OUT/sim $SIM_FLAGS $INC"
$CXX -o "$OUT/vsim" "$OUT"/sim/*.o "$OUT"/eng/*.o $LD_FLAGS
echo "$ENG_HASH $SIM_HASH" > "$OUT/stamp"
