#!/bin/bash
# check.sh <property id> <quick|thorough>
# Rebuilds the needed simulator variants from /repo's current working tree (content-hashed cache),
# runs the seeded batch(es), gates/minimises violations, writes evidence/<id>.json.
# exit 0: property held on everything explored; 1: VIOLATION line(s) printed; 2: infrastructure error.
set -u
PROP="${1:?property id}"
TIER="${2:-${VERIF_TIER:-quick}}"
cd "$(dirname "$0")"
VERIF="$(pwd)"
export VERIF_DIR="$VERIF"
SEED="${VERIF_SEED:-1}"
mkdir -p evidence build/ev
rm -f build/ev/valgrind.json

case "$PROP" in
  C06) VARIANTS="plain tsan" ;;
  C10) VARIANTS="asan" ;;
  C05) VARIANTS="plain asan" ;;
  C14) VARIANTS="plain asan" ;;
  C03|C04|C07|C08|C09|C19) VARIANTS="plain" ;;
  *) echo "property $PROP is not claimed (see MANIFEST.json not_applicable)"; exit 2 ;;
esac

runs_for() { # variant
  local v="$1" q=0
  [ "$TIER" = "thorough" ] || q=1
  case "$PROP:$v" in
    C06:plain) [ $q = 1 ] && echo 3000 || echo 120000 ;;
    C06:tsan)  [ $q = 1 ] && echo 500  || echo 20000 ;;
    C05:plain) [ $q = 1 ] && echo 2500 || echo 60000 ;;
    C05:asan)  [ $q = 1 ] && echo 150  || echo 6000 ;;
    C09:plain) [ $q = 1 ] && echo 2500 || echo 60000 ;;
    C03:plain) [ $q = 1 ] && echo 2000 || echo 40000 ;;
    C04:plain) [ $q = 1 ] && echo 1500 || echo 40000 ;;
    C07:plain) [ $q = 1 ] && echo 3000 || echo 100000 ;;
    C08:plain) [ $q = 1 ] && echo 4000 || echo 60000 ;;
    C10:asan)  [ $q = 1 ] && echo 1000 || echo 30000 ;;
    C14:plain) [ $q = 1 ] && echo 3000 || echo 100000 ;;
    C14:asan)  [ $q = 1 ] && echo 600  || echo 20000 ;;
    C19:plain) [ $q = 1 ] && echo 2500 || echo 60000 ;;
    *) echo 200 ;;
  esac
}

rc=0
EVS=""
for v in $VARIANTS; do
  if ! ./build.sh "$v" > "build/ev/build_$v.log" 2>&1; then
    echo "INFRA: build of variant $v failed (see below)"; tail -30 "build/ev/build_$v.log"; exit 2
  fi
  ev="build/ev/${PROP}_${v}.json"
  rm -f "$ev"
  budget=$([ "$TIER" = "thorough" ] && echo 1500 || echo 60)
  "build/$v/vsim" --prop "$PROP" --tier "$TIER" --seed "$SEED" --runs "$(runs_for "$v")" --budget-s "$budget" --evidence "$ev"
  r=$?
  if [ $r -eq 1 ]; then rc=1; elif [ $r -ne 0 ] && [ $rc -eq 0 ]; then rc=2; fi
  EVS="$EVS $ev"
done

# C06: enumerated stop windows W0..W3 and W4(k), k = 1..200, x 4 go kinds x 3 positions (2448 cases), search held in the window
if [ "$PROP" = "C06" ]; then
  for v in plain tsan; do
    ev="build/ev/${PROP}_${v}_sweep.json"; rm -f "$ev"
    "build/$v/vsim" --prop C06 --sweep --seed "$SEED" --runs 2448 --evidence "$ev"
    r=$?
    if [ $r -eq 1 ]; then rc=1; elif [ $r -ne 0 ] && [ $rc -eq 0 ]; then rc=2; fi
    EVS="$EVS $ev"
  done
fi

# valgrind over a few replayed seeds of the plain binary (uninitialised values; C10 thorough only)
if [ "$PROP" = "C10" ] && [ $rc -eq 0 ]; then
  ./build.sh vg > build/ev/build_vg.log 2>&1 || { echo "INFRA: vg build failed"; exit 2; }
  ./build.sh vg0 > build/ev/build_vg0.log 2>&1 || { echo "INFRA: vg0 build failed"; exit 2; }
  ./valgrind_replays.sh "$SEED" $([ "$TIER" = "thorough" ] && echo 60 || echo 8) || rc=$?
fi

# determinism witness for this very build: a sample of seeds run twice (16 vs 3 worker processes), trace hashes must agree
v0=$(echo $VARIANTS | cut -d' ' -f1)
dn=$([ "$TIER" = "thorough" ] && echo 400 || echo 48)
"build/$v0/vsim" --prop "$PROP" --tier "$TIER" --seed "$SEED" --runs "$dn" --selftest-determinism > build/ev/determinism.txt 2>&1
dr=$?
grep "^determinism" build/ev/determinism.txt
if [ $dr -ne 0 ]; then echo "INFRA: determinism self-test failed"; cat build/ev/determinism.txt | tail -5; [ $rc -eq 0 ] && rc=2; fi

python3 tools/merge_evidence.py "$PROP" "$TIER" "$SEED" "evidence/$PROP.json" $EVS || { [ $rc -eq 0 ] && rc=2; }
exit $rc
